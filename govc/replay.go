package main

// tryReplay: confirm a refuted obligation on the real code (filled in per obligation class).
func tryReplay(res *checkResult, o *Obligation) map[string]any { return nil }
