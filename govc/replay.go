package main

// Replay of solver counterexamples on the real code. For the obligation
// classes whose inputs are plain scalars (layer A: node4 SWAR helpers, node16
// search, numeric codecs) the model's input values are put into an in-package
// Go test that is injected with `go test -overlay` (nothing is written to
// /repo), calls the REAL function and checks the property clause with an
// oracle written independently in Go. A failing test confirms the violation.
// Other classes (node/tree states) are not replayed: their VIOLATION lines end
// with no-failing-input-found and the replay file carries the model.

import (
	"fmt"
	"os"
	"os/exec"
	"path/filepath"
	"regexp"
	"strconv"
	"strings"
	"time"
)

var bvValRe = regexp.MustCompile(`^#x([0-9a-fA-F]+)$|^#b([01]+)$`)

func parseBV(s string) (uint64, bool) {
	s = strings.TrimSpace(s)
	if strings.HasPrefix(s, "#x") {
		if len(s) > 18 {
			return 0, false
		}
		v, err := strconv.ParseUint(s[2:], 16, 64)
		return v, err == nil
	}
	if strings.HasPrefix(s, "#b") {
		v, err := strconv.ParseUint(s[2:], 2, 64)
		return v, err == nil
	}
	if strings.HasPrefix(s, "(_ bv") {
		f := strings.Fields(strings.Trim(s, "()"))
		if len(f) >= 2 {
			v, err := strconv.ParseUint(strings.TrimPrefix(f[1], "bv"), 10, 64)
			return v, err == nil
		}
	}
	return 0, false
}

// modelValue finds the value of the symbol whose name starts with prefix (p.keys!12 ...).
func modelValue(m map[string]string, prefix string) (uint64, bool) {
	for k, v := range m {
		if strings.HasPrefix(k, prefix+"!") {
			return parseBV(v)
		}
	}
	return 0, false
}

func tryReplay(res *checkResult, o *Obligation) map[string]any {
	m := modelSummary(o.Model)
	fn := o.Func
	var body string
	switch {
	case fn == "searchNode4" || fn == "insertPosNode4":
		keys, ok1 := modelValue(m, "p.keys")
		b, ok2 := modelValue(m, "p.b")
		if !ok1 || !ok2 {
			return nil
		}
		cmp := "=="
		if fn == "insertPosNode4" {
			cmp = ">="
		}
		body = fmt.Sprintf(`
	keys, b := uint32(%#x), byte(%#x)
	want := -1
	for i := 0; i < 4; i++ {
		if byte(keys>>(8*i)) %s b {
			want = i
			break
		}
	}
	if got := %s(keys, b); got != want {
		t.Fatalf("%s(%%#x, %%#x) = %%d, scalar scan over the four lanes gives %%d", keys, b, got, want)
	}`, keys, b, cmp, fn, fn)
	case strings.HasPrefix(fn, "searchNode16") || strings.HasPrefix(fn, "insertPosNode16"):
		name := strings.Fields(fn)[0]
		n, ok1 := modelValue(m, "p.childrenLen")
		b, ok2 := modelValue(m, "p.b")
		var keysLit string
		for k, v := range m {
			if strings.HasPrefix(k, "asm.keys!") && strings.HasPrefix(v, "#x") && len(v) == 34 {
				var bs []string
				for i := 15; i >= 0; i-- {
					bs = append(bs, "0x"+v[2+2*i:4+2*i])
				}
				keysLit = strings.Join(bs, ", ")
			}
		}
		if !ok1 || !ok2 || keysLit == "" {
			return nil
		}
		cmp := "=="
		if name == "insertPosNode16" {
			cmp = ">"
		}
		body = fmt.Sprintf(`
	keys := [16]byte{%s}
	n, b := uint8(%d), byte(%#x)
	want := -1
	for i := 0; i < int(n); i++ {
		if keys[i] %s b {
			want = i
			break
		}
	}
	if got := %s(&keys, n, b); got != want {
		t.Fatalf("%s(%%v, %%d, %%#x) = %%d, scalar scan over the occupied slots gives %%d", keys, n, b, got, want)
	}`, keysLit, n, b, cmp, name, name)
	case strings.Contains(fn, "BinaryKey[") && strings.HasSuffix(fn, ".Transform"):
		body = codecReplayBody(fn, m)
	}
	if body == "" {
		return nil
	}
	src := "package art\n\nimport (\n\t\"bytes\"\n\t\"math\"\n\t\"testing\"\n)\n\nvar _ = bytes.Compare\nvar _ = math.NaN\n\nfunc TestVerifReplay(t *testing.T) {" + body + "\n}\n"
	return runReplayTest(src, o.Name)
}

func codecReplayBody(fn string, m map[string]string) string {
	// fn like (UnsignedBinaryKey[uint16]).Transform
	i, j := strings.Index(fn, "["), strings.Index(fn, "]")
	if i < 0 || j < i {
		return ""
	}
	typ := fn[i+1 : j]
	codec := strings.TrimPrefix(fn[:i], "(")
	a, ok1 := modelValue(m, "p.k")
	b, ok2 := modelValue(m, "p.b.k")
	if !ok1 {
		return ""
	}
	if !ok2 {
		b = a
	}
	var mk, less, same string
	switch {
	case strings.HasPrefix(typ, "float32"):
		mk = "func(u uint64) float32 { return math.Float32frombits(uint32(u)) }"
	case strings.HasPrefix(typ, "float64"):
		mk = "func(u uint64) float64 { return math.Float64frombits(u) }"
	default:
		mk = fmt.Sprintf("func(u uint64) %s { return %s(u) }", typ, typ)
	}
	if strings.HasPrefix(typ, "float") {
		less = `func(x, y ` + typ + `) bool {
		fx, fy := float64(x), float64(y)
		switch {
		case math.IsNaN(fx):
			return !math.IsNaN(fy)
		case math.IsNaN(fy):
			return false
		case fx == 0 && fy == 0:
			return math.Signbit(fx) && !math.Signbit(fy)
		}
		return fx < fy
	}`
		same = `func(x, y ` + typ + `) bool {
		fx, fy := float64(x), float64(y)
		if math.IsNaN(fx) || math.IsNaN(fy) {
			return math.IsNaN(fx) && math.IsNaN(fy)
		}
		return math.Float64bits(fx) == math.Float64bits(fy)
	}`
	} else {
		less = "func(x, y " + typ + ") bool { return x < y }"
		same = "func(x, y " + typ + ") bool { return x == y }"
	}
	return fmt.Sprintf(`
	mk := %s
	less := %s
	same := %s
	x, y := mk(%#x), mk(%#x)
	var c %s[%s]
	ex, _ := c.Transform(x)
	ey, _ := c.Transform(y)
	if (bytes.Compare(ex, ey) < 0) != less(x, y) {
		t.Fatalf("order: x=%%v y=%%v enc(x)=%%x enc(y)=%%x", x, y, ex, ey)
	}
	if bytes.Equal(ex, ey) != same(x, y) {
		t.Fatalf("injectivity: x=%%v y=%%v enc(x)=%%x enc(y)=%%x", x, y, ex, ey)
	}
	if r := c.Restore(ex); !same(r, x) {
		t.Fatalf("round trip: x=%%v (bits %%#x) decodes to %%v", x, uint64(%#x), r)
	}`, mk, less, same, a, b, codec, typ, a)
}

func runReplayTest(src, obName string) map[string]any {
	dir := filepath.Join(verifDir(), ".work")
	os.MkdirAll(dir, 0o755)
	tf := filepath.Join(dir, "replay_"+sanitize(obName)+"_test.go")
	if len(tf) > 200 {
		tf = filepath.Join(dir, fmt.Sprintf("replay_%d_test.go", time.Now().UnixNano()))
	}
	os.WriteFile(tf, []byte(src), 0o644)
	ov := filepath.Join(dir, "overlay.json")
	target := filepath.Join(repoDir(), "zz_verif_replay_test.go")
	os.WriteFile(ov, []byte(fmt.Sprintf(`{"Replace": {%q: %q}}`, target, tf)), 0o644)
	cmd := exec.Command("go", "test", "-overlay", ov, "-vet=off", "-count=1", "-timeout", "60s", "-run", "^TestVerifReplay$", ".")
	cmd.Dir = repoDir()
	env := os.Environ()
	var filtered []string
	for _, e := range env {
		if strings.HasPrefix(e, "GOSUMDB=") || strings.HasPrefix(e, "GOTOOLCHAIN=") || strings.HasPrefix(e, "GOFLAGS=") {
			continue
		}
		filtered = append(filtered, e)
	}
	cmd.Env = append(filtered, "GOFLAGS=-mod=mod", "GOPROXY=off")
	out, err := cmd.CombinedOutput()
	confirmed := err != nil && strings.Contains(string(out), "--- FAIL")
	o := string(out)
	if len(o) > 4000 {
		o = o[:4000]
	}
	return map[string]any{"test": src, "output": o, "confirmed": confirmed,
		"how": "in-package test injected with go test -overlay; calls the real function with the model's inputs and checks the clause with an independent Go oracle"}
}
