package main

// Replay of solver counterexamples on the real code. For the obligation
// classes whose inputs are plain scalars (layer A: node4 SWAR helpers, node16
// search, numeric codecs) the model's input values are put into an in-package
// Go test that is injected with `go test -overlay` (nothing is written to
// /repo), calls the REAL function and checks the property clause with an
// oracle written independently in Go. A failing test confirms the violation.
// Other classes (node/tree states) are not replayed: their VIOLATION lines end
// with no-failing-input-found and the replay file carries the model.

import (
	"context"
	"fmt"
	"os"
	"os/exec"
	"path/filepath"
	"regexp"
	"sort"
	"strconv"
	"strings"
	"time"
)

var bvValRe = regexp.MustCompile(`^#x([0-9a-fA-F]+)$|^#b([01]+)$`)

func parseBV(s string) (uint64, bool) {
	s = strings.TrimSpace(s)
	if strings.HasPrefix(s, "#x") {
		if len(s) > 18 {
			return 0, false
		}
		v, err := strconv.ParseUint(s[2:], 16, 64)
		return v, err == nil
	}
	if strings.HasPrefix(s, "#b") {
		v, err := strconv.ParseUint(s[2:], 2, 64)
		return v, err == nil
	}
	if strings.HasPrefix(s, "(_ bv") {
		f := strings.Fields(strings.Trim(s, "()"))
		if len(f) >= 2 {
			v, err := strconv.ParseUint(strings.TrimPrefix(f[1], "bv"), 10, 64)
			return v, err == nil
		}
	}
	return 0, false
}

// modelValue finds the value of the symbol whose name starts with prefix (p.keys!12 ...).
func modelValue(m map[string]string, prefix string) (uint64, bool) {
	for k, v := range m {
		if strings.HasPrefix(k, prefix+"!") {
			return parseBV(v)
		}
	}
	return 0, false
}

func tryReplay(res *checkResult, o *Obligation) map[string]any {
	m := modelSummary(o.Model)
	fn := o.Func
	var body string
	switch {
	case fn == "searchNode4" || fn == "insertPosNode4":
		keys, ok1 := modelValue(m, "p.keys")
		b, ok2 := modelValue(m, "p.b")
		if !ok1 || !ok2 {
			return nil
		}
		cmp := "=="
		if fn == "insertPosNode4" {
			cmp = ">="
		}
		body = fmt.Sprintf(`
	keys, b := uint32(%#x), byte(%#x)
	want := -1
	for i := 0; i < 4; i++ {
		if byte(keys>>(8*i)) %s b {
			want = i
			break
		}
	}
	if got := %s(keys, b); got != want {
		t.Fatalf("%s(%%#x, %%#x) = %%d, scalar scan over the four lanes gives %%d", keys, b, got, want)
	}`, keys, b, cmp, fn, fn)
	case strings.HasPrefix(fn, "searchNode16") || strings.HasPrefix(fn, "insertPosNode16"):
		name := strings.Fields(fn)[0]
		n, ok1 := modelValue(m, "p.childrenLen")
		b, ok2 := modelValue(m, "p.b")
		var keysLit string
		for k, v := range m {
			if strings.HasPrefix(k, "asm.keys!") && strings.HasPrefix(v, "#x") && len(v) == 34 {
				var bs []string
				for i := 15; i >= 0; i-- {
					bs = append(bs, "0x"+v[2+2*i:4+2*i])
				}
				keysLit = strings.Join(bs, ", ")
			}
		}
		if !ok1 || !ok2 || keysLit == "" {
			return nil
		}
		cmp := "=="
		if name == "insertPosNode16" {
			cmp = ">"
		}
		body = fmt.Sprintf(`
	keys := [16]byte{%s}
	n, b := uint8(%d), byte(%#x)
	want := -1
	for i := 0; i < int(n); i++ {
		if keys[i] %s b {
			want = i
			break
		}
	}
	if got := %s(&keys, n, b); got != want {
		t.Fatalf("%s(%%v, %%d, %%#x) = %%d, scalar scan over the occupied slots gives %%d", keys, n, b, got, want)
	}`, keysLit, n, b, cmp, name, name)
	case strings.Contains(fn, "BinaryKey[") && strings.HasSuffix(fn, ".Transform"):
		body = codecReplayBody(fn, m)
	}
	if body == "" {
		return nil
	}
	src := "package art\n\nimport (\n\t\"bytes\"\n\t\"math\"\n\t\"testing\"\n)\n\nvar _ = bytes.Compare\nvar _ = math.NaN\n\nfunc TestVerifReplay(t *testing.T) {" + body + "\n}\n"
	return runReplayTest(src, o.Name)
}

func codecReplayBody(fn string, m map[string]string) string {
	// fn like (UnsignedBinaryKey[uint16]).Transform
	i, j := strings.Index(fn, "["), strings.Index(fn, "]")
	if i < 0 || j < i {
		return ""
	}
	typ := fn[i+1 : j]
	codec := strings.TrimPrefix(fn[:i], "(")
	a, ok1 := modelValue(m, "p.k")
	b, ok2 := modelValue(m, "p.b.k")
	if !ok1 {
		return ""
	}
	if !ok2 {
		b = a
	}
	var mk, less, same string
	switch {
	case strings.HasPrefix(typ, "float32"):
		mk = "func(u uint64) float32 { return math.Float32frombits(uint32(u)) }"
	case strings.HasPrefix(typ, "float64"):
		mk = "func(u uint64) float64 { return math.Float64frombits(u) }"
	default:
		mk = fmt.Sprintf("func(u uint64) %s { return %s(u) }", typ, typ)
	}
	if strings.HasPrefix(typ, "float") {
		less = `func(x, y ` + typ + `) bool {
		fx, fy := float64(x), float64(y)
		switch {
		case math.IsNaN(fx):
			return !math.IsNaN(fy)
		case math.IsNaN(fy):
			return false
		case fx == 0 && fy == 0:
			return math.Signbit(fx) && !math.Signbit(fy)
		}
		return fx < fy
	}`
		same = `func(x, y ` + typ + `) bool {
		fx, fy := float64(x), float64(y)
		if math.IsNaN(fx) || math.IsNaN(fy) {
			return math.IsNaN(fx) && math.IsNaN(fy)
		}
		return math.Float64bits(fx) == math.Float64bits(fy)
	}`
	} else {
		less = "func(x, y " + typ + ") bool { return x < y }"
		same = "func(x, y " + typ + ") bool { return x == y }"
	}
	return fmt.Sprintf(`
	mk := %s
	less := %s
	same := %s
	x, y := mk(%#x), mk(%#x)
	var c %s[%s]
	ex, _ := c.Transform(x)
	ey, _ := c.Transform(y)
	if (bytes.Compare(ex, ey) < 0) != less(x, y) {
		t.Fatalf("order: x=%%v y=%%v enc(x)=%%x enc(y)=%%x", x, y, ex, ey)
	}
	if bytes.Equal(ex, ey) != same(x, y) {
		t.Fatalf("injectivity: x=%%v y=%%v enc(x)=%%x enc(y)=%%x", x, y, ex, ey)
	}
	if r := c.Restore(ex); !same(r, x) {
		t.Fatalf("round trip: x=%%v (bits %%#x) decodes to %%v", x, uint64(%#x), r)
	}`, mk, less, same, a, b, codec, typ, a)
}

func runReplayTest(src, obName string) map[string]any {
	dir := filepath.Join(verifDir(), ".work")
	os.MkdirAll(dir, 0o755)
	tf := filepath.Join(dir, "replay_"+sanitize(obName)+"_test.go")
	if len(tf) > 200 {
		tf = filepath.Join(dir, fmt.Sprintf("replay_%d_test.go", time.Now().UnixNano()))
	}
	os.WriteFile(tf, []byte(src), 0o644)
	ov := filepath.Join(dir, "overlay.json")
	target := filepath.Join(repoDir(), "zz_verif_replay_test.go")
	os.WriteFile(ov, []byte(fmt.Sprintf(`{"Replace": {%q: %q}}`, target, tf)), 0o644)
	cmd := exec.Command("go", "test", "-overlay", ov, "-vet=off", "-count=1", "-timeout", "60s", "-run", "^TestVerifReplay$", ".")
	cmd.Dir = repoDir()
	env := os.Environ()
	var filtered []string
	for _, e := range env {
		if strings.HasPrefix(e, "GOSUMDB=") || strings.HasPrefix(e, "GOTOOLCHAIN=") || strings.HasPrefix(e, "GOFLAGS=") {
			continue
		}
		filtered = append(filtered, e)
	}
	cmd.Env = append(filtered, "GOFLAGS=-mod=mod", "GOPROXY=off")
	out, err := cmd.CombinedOutput()
	confirmed := err != nil && strings.Contains(string(out), "--- FAIL")
	o := string(out)
	if len(o) > 4000 {
		o = o[:4000]
	}
	return map[string]any{"test": src, "output": o, "confirmed": confirmed,
		"how": "in-package test injected with go test -overlay; calls the real function with the model's inputs and checks the clause with an independent Go oracle"}
}

// ---------------------------------------------------------------------------
// Replay of node-level counterexamples (layer B). The solver's model of a refuted obligation of
// an inner-node operation is read back as a concrete node (class, fan-out, key bytes, child
// slots) plus the call's arguments; an injected in-package test builds that node from real
// node4/16/48/256 values, runs the REAL operation on it and compares the byte->child table
// before and after with what an ordered table must do (add: old + {b:child}; delete: old - {b};
// find: old[b]) and re-checks the class representation invariant, all with a naive oracle
// written here in Go, independent of the contracts. A model that is not a valid node (the
// oracle's own invariant check fails before the call) is not a witness: the test is skipped and
// the violation keeps its no-failing-input-found suffix.

var nodeFnRe = regexp.MustCompile(`^\(\*(node4|node16|node48|node256|nodeRef)\)\.(addChild|deleteChild|findChild)$`)

func tryReplayNode(o *Obligation, query string) map[string]any {
	m := nodeFnRe.FindStringSubmatch(o.Func)
	if m == nil {
		return nil
	}
	weakened := false
	if o.Result != "sat" {
		// no model from the verifier
		return witnessSearchNode(o)
	}
	if false {
		query = modelQuery(query)
		weakened = true
		if d := os.Getenv("GOVC_DUMP_WEAK"); d != "" {
			os.WriteFile(d, []byte(query), 0o644)
		}
	}
	recv, op := m[1], m[2]
	decl := func(prefix string) string {
		re := regexp.MustCompile(`\(declare-fun (` + regexp.QuoteMeta(prefix) + `![0-9]+) \(\)`)
		if mm := re.FindStringSubmatch(query); mm != nil {
			return mm[1]
		}
		return ""
	}
	has := func(sym string) bool { return strings.Contains(query, "(declare-fun "+sym+" ()") }
	var nodeT, tagT string
	if recv == "nodeRef" {
		obj, idx := decl("p.ptr.obj"), decl("p.ptr.idx")
		if obj == "" {
			obj, idx = decl("p.ref.obj"), decl("p.ref.idx")
		}
		if obj == "" || idx == "" || !has("H.SP") || !has("H.ST") {
			return nil
		}
		nodeT = fmt.Sprintf("(select (select H.SP %s) %s)", obj, idx)
		tagT = fmt.Sprintf("(select (select H.ST %s) %s)", obj, idx)
	} else {
		nodeT = decl("p.n" + strings.TrimPrefix(recv, "node"))
		if nodeT == "" {
			return nil
		}
		tagT = map[string]string{"node4": "0", "node16": "1", "node48": "2", "node256": "3"}[recv]
	}
	var terms []string
	add := func(t string) { terms = append(terms, t) }
	add("null")
	add(nodeT)
	add(tagT)
	if b := decl("p.b"); b != "" {
		add(b)
	} else {
		add("0")
	}
	if cp, ct := decl("p.child.pointer"), decl("p.child.tag"); cp != "" && ct != "" {
		add(cp)
		add(ct)
	} else {
		add("null")
		add("0")
	}
	for _, h := range []string{"H.node.childrenLen", "H.node.prefixLen", "H.node4.keys"} {
		if has(h) {
			add(fmt.Sprintf("(select %s %s)", h, nodeT))
		} else {
			add("0")
		}
	}
	for i := 0; i < 256; i++ {
		if has("H.B") {
			add(fmt.Sprintf("(select (select H.B %s) %d)", nodeT, i))
		} else {
			add("0")
		}
	}
	for i := 0; i < 256; i++ {
		if has("H.SP") && has("H.ST") {
			add(fmt.Sprintf("(select (select H.SP %s) %d)", nodeT, i))
			add(fmt.Sprintf("(select (select H.ST %s) %d)", nodeT, i))
		} else {
			add("null")
			add("0")
		}
	}
	// one get-value per term keeps the answer easy to parse
	q := "(set-option :produce-models true)\n" + strings.Replace(query, "(check-sat)\n", "", 1) + "(check-sat)\n"
	for _, t := range terms {
		q += "(get-value (" + t + "))\n"
	}
	res, out, _ := runSolver(context.Background(), "z3-new", q, 60*time.Second, false)
	if res != "sat" {
		return nil
	}
	lines := strings.Split(strings.TrimSpace(out), "\n")
	var vals []string
	cur := ""
	depth := 0
	for _, l := range lines[1:] {
		cur += l
		depth += strings.Count(l, "(") - strings.Count(l, ")")
		if depth == 0 && cur != "" {
			// ((term value))
			inner := strings.TrimSpace(cur)
			inner = strings.TrimSuffix(strings.TrimPrefix(inner, "(("), "))")
			// the value is the last s-expression
			vals = append(vals, lastSexp(inner))
			cur = ""
		}
	}
	if len(vals) != len(terms) {
		return nil
	}
	num := func(s string) int64 {
		s = strings.TrimSpace(s)
		neg := false
		if strings.HasPrefix(s, "(-") {
			neg = true
			s = strings.TrimSpace(strings.TrimSuffix(strings.TrimPrefix(s, "(-"), ")"))
		}
		v, _ := strconv.ParseInt(s, 10, 64)
		if neg {
			v = -v
		}
		return v
	}
	null := vals[0]
	ids := map[string]int{null: 0}
	id := func(v string) int {
		if n, ok := ids[v]; ok {
			return n
		}
		ids[v] = len(ids)
		return ids[v]
	}
	if vals[1] == null {
		return nil
	}
	tag := num(vals[2])
	b := num(vals[3]) & 0xff
	childID, childTag := id(vals[4]), num(vals[5])&0xff
	clen, plen, keys4 := num(vals[6])&0xff, num(vals[7])&0xffffffff, num(vals[8])&0xffffffff
	var keys, slots []string
	for i := 0; i < 256; i++ {
		keys = append(keys, strconv.FormatInt(num(vals[9+i])&0xff, 10))
	}
	for i := 0; i < 256; i++ {
		slots = append(slots, fmt.Sprintf("{%d, %d}", id(vals[9+256+2*i]), num(vals[9+256+2*i+1])&0xff))
	}
	if tag < 0 || tag > 3 {
		return nil
	}
	src := fmt.Sprintf(nodeReplayTemplate, tag, clen, plen, keys4, strings.Join(keys, ", "), strings.Join(slots, ", "), b, childID, childTag, op)
	rr := runReplayTest(src, o.Name)
	if weakened {
		rr["how"] = "candidate input taken from a model of the quantifier-free weakening of the refuted obligation (bounded quantifiers expanded, goal skolemised, unexpandable assumptions dropped), validated by the test's own well-formedness check; " + rr["how"].(string)
	}
	return rr
}

func lastSexp(s string) string {
	s = strings.TrimSpace(s)
	if strings.HasSuffix(s, ")") {
		depth := 0
		for i := len(s) - 1; i >= 0; i-- {
			switch s[i] {
			case ')':
				depth++
			case '(':
				depth--
				if depth == 0 {
					return s[i:]
				}
			}
		}
		return s
	}
	i := strings.LastIndexAny(s, " \t")
	return s[i+1:]
}

const nodeReplayTemplate = `package art

import (
	"fmt"
	"testing"
	"unsafe"
)

type vrSlot struct {
	id  int
	tag nodeKind
}

var (
	vrTag     = nodeKind(%d)
	vrLen     = uint8(%d)
	vrPrefix  = uint32(%d)
	vrKeys4   = uint32(%d)
	vrKeys    = [256]byte{%s}
	vrSlots   = [256]vrSlot{%s}
	vrB       = byte(%d)
	vrChild   = vrSlot{%d, nodeKind(%d)}
	vrOp      = %q
	vrObjects = map[int]unsafe.Pointer{}
)

func vrRef(s vrSlot) nodeRef {
	if s.id == 0 {
		return nodeRef{tag: s.tag}
	}
	p, ok := vrObjects[s.id]
	if !ok {
		switch s.tag {
		case nodeKind4:
			p = unsafe.Pointer(&node4{})
		case nodeKind16:
			p = unsafe.Pointer(&node16{})
		case nodeKind48:
			p = unsafe.Pointer(&node48{})
		case nodeKind256:
			p = unsafe.Pointer(&node256{})
		default:
			p = unsafe.Pointer(&alphaLeafNode[int]{})
		}
		vrObjects[s.id] = p
	}
	return nodeRef{pointer: p, tag: s.tag}
}

// vrView: the byte->child table a node represents, read naively from its representation, and
// whether the representation is well formed.
func vrView(r nodeRef) (map[byte]nodeRef, error) {
	m := map[byte]nodeRef{}
	switch r.tag {
	case nodeKind4:
		n := (*node4)(r.pointer)
		if n.childrenLen > 4 {
			return nil, fmt.Errorf("node4 with childrenLen %%d", n.childrenLen)
		}
		for i := 0; i < int(n.childrenLen); i++ {
			k := byte(n.keys >> (8 * i))
			if i > 0 && byte(n.keys>>(8*(i-1))) >= k {
				return nil, fmt.Errorf("node4 keys not strictly ascending at %%d: %%#x", i, n.keys)
			}
			if n.children[i].pointer == nil {
				return nil, fmt.Errorf("node4 child %%d is nil", i)
			}
			m[k] = n.children[i]
		}
	case nodeKind16:
		n := (*node16)(r.pointer)
		if n.childrenLen > 16 {
			return nil, fmt.Errorf("node16 with childrenLen %%d", n.childrenLen)
		}
		for i := 0; i < int(n.childrenLen); i++ {
			if i > 0 && n.keys[i-1] >= n.keys[i] {
				return nil, fmt.Errorf("node16 keys not strictly ascending at %%d: %%v", i, n.keys)
			}
			if n.children[i].pointer == nil {
				return nil, fmt.Errorf("node16 child %%d is nil", i)
			}
			m[n.keys[i]] = n.children[i]
		}
	case nodeKind48:
		n := (*node48)(r.pointer)
		used := map[byte]bool{}
		for b := 0; b < 256; b++ {
			idx := n.keys[b]
			if idx == 0 {
				continue
			}
			if idx > 48 || used[idx] {
				return nil, fmt.Errorf("node48 index %%d of byte %%d out of range or shared", idx, b)
			}
			used[idx] = true
			if n.children[idx-1].pointer == nil {
				return nil, fmt.Errorf("node48 byte %%d maps to an empty slot", b)
			}
			m[byte(b)] = n.children[idx-1]
		}
		if len(m) != int(n.childrenLen) {
			return nil, fmt.Errorf("node48 childrenLen %%d but %%d bytes mapped", n.childrenLen, len(m))
		}
	case nodeKind256:
		n := (*node256)(r.pointer)
		for b := 0; b < 256; b++ {
			if n.children[b].pointer != nil {
				m[byte(b)] = n.children[b]
			}
		}
		if len(m)%%256 != int(n.childrenLen) {
			return nil, fmt.Errorf("node256 childrenLen %%d but %%d children", n.childrenLen, len(m))
		}
	default:
		return nil, fmt.Errorf("not an inner node (tag %%d)", r.tag)
	}
	return m, nil
}

func TestVerifReplay(t *testing.T) {
	var ref nodeRef
	switch vrTag {
	case nodeKind4:
		n := &node4{keys: vrKeys4}
		n.childrenLen, n.prefixLen = vrLen, vrPrefix
		for i := range n.children {
			n.children[i] = vrRef(vrSlots[i])
		}
		ref = nodeRef{pointer: unsafe.Pointer(n), tag: nodeKind4}
	case nodeKind16:
		n := &node16{}
		n.childrenLen, n.prefixLen = vrLen, vrPrefix
		copy(n.keys[:], vrKeys[:16])
		for i := range n.children {
			n.children[i] = vrRef(vrSlots[i])
		}
		ref = nodeRef{pointer: unsafe.Pointer(n), tag: nodeKind16}
	case nodeKind48:
		n := &node48{keys: vrKeys}
		n.childrenLen, n.prefixLen = vrLen, vrPrefix
		for i := range n.children {
			n.children[i] = vrRef(vrSlots[i])
		}
		ref = nodeRef{pointer: unsafe.Pointer(n), tag: nodeKind48}
	case nodeKind256:
		n := &node256{}
		n.childrenLen, n.prefixLen = vrLen, vrPrefix
		for i := range n.children {
			n.children[i] = vrRef(vrSlots[i])
		}
		ref = nodeRef{pointer: unsafe.Pointer(n), tag: nodeKind256}
	}
	before, err := vrView(ref)
	if err != nil {
		t.Skipf("the model is not a well-formed node: %%v", err)
	}
	child := vrRef(vrChild)
	switch vrOp {
	case "findChild":
		got := ref.findChild(vrB)
		want, present := before[vrB]
		if present != (got != nil) || (got != nil && *got != want) {
			t.Fatalf("findChild(%%#x) on %%v node with %%d children: got %%v, table has (%%v, present=%%v)", vrB, vrTag, len(before), got, want, present)
		}
	case "addChild":
		if _, present := before[vrB]; present || child.pointer == nil {
			t.Skip("precondition of addChild not met by the model")
		}
		ref.addChild(vrB, child)
		after, err := vrView(ref)
		if err != nil {
			t.Fatalf("addChild(%%#x) on %%v node with %%d children leaves a malformed node: %%v", vrB, vrTag, len(before), err)
		}
		before[vrB] = child
		if len(after) != len(before) {
			t.Fatalf("addChild(%%#x): %%d children before (plus the new one), %%d after", vrB, len(before), len(after))
		}
		for k, v := range before {
			if after[k] != v {
				t.Fatalf("addChild(%%#x) on %%v node: byte %%#x maps to %%v afterwards, expected %%v", vrB, vrTag, k, after[k], v)
			}
		}
	case "deleteChild":
		if _, present := before[vrB]; !present {
			t.Skip("precondition of deleteChild not met by the model")
		}
		delete(before, vrB)
		ref.deleteChild(vrB)
		if vrTag == nodeKind4 && len(before) == 1 {
			// path compression: the surviving child takes the node's place
			for _, v := range before {
				if ref.pointer != v.pointer || ref.tag != v.tag {
					t.Fatalf("deleteChild(%%#x) on a node4 with two children: slot holds %%v, expected the surviving child %%v", vrB, ref, v)
				}
			}
			return
		}
		after, err := vrView(ref)
		if err != nil {
			t.Fatalf("deleteChild(%%#x) on %%v node with %%d children leaves a malformed node: %%v", vrB, vrTag, len(before)+1, err)
		}
		if len(after) != len(before) {
			t.Fatalf("deleteChild(%%#x): %%d children expected afterwards, %%d found", vrB, len(before), len(after))
		}
		for k, v := range before {
			if after[k] != v {
				t.Fatalf("deleteChild(%%#x) on %%v node: byte %%#x maps to %%v afterwards, expected %%v", vrB, vrTag, k, after[k], v)
			}
		}
	}
}
`

// ---------------------------------------------------------------------------
// Model finding for replay. A refuted obligation over quantified assumptions usually comes back
// as timeout/unknown, without a model. For REPLAY ONLY the query is weakened into a
// quantifier-free one: integer quantifiers with constant bounds are expanded, a negated
// universal goal is skolemised, the counting functions get their defining sums for the ground
// rows that occur, and every assumption that still contains a quantifier is dropped. A model
// of the weakened query need not satisfy the dropped assumptions - it is only a candidate input;
// the replay test validates it (well-formedness check in Go) and runs the real code on it.

type sx struct {
	atom string
	kids []*sx
	list bool
}

func parseSx(s string) []*sx {
	var stack [][]*sx
	cur := []*sx{}
	i := 0
	for i < len(s) {
		c := s[i]
		switch {
		case c == '(':
			stack = append(stack, cur)
			cur = []*sx{}
			i++
		case c == ')':
			n := &sx{list: true, kids: cur}
			if len(stack) == 0 {
				return cur
			}
			cur = append(stack[len(stack)-1], n)
			stack = stack[:len(stack)-1]
			i++
		case c == ' ' || c == '\n' || c == '\t' || c == '\r':
			i++
		case c == ';':
			for i < len(s) && s[i] != '\n' {
				i++
			}
		case c == '|':
			j := i + 1
			for j < len(s) && s[j] != '|' {
				j++
			}
			cur = append(cur, &sx{atom: s[i : j+1]})
			i = j + 1
		case c == '"':
			j := i + 1
			for j < len(s) && s[j] != '"' {
				j++
			}
			cur = append(cur, &sx{atom: s[i : j+1]})
			i = j + 1
		default:
			j := i
			for j < len(s) && !strings.ContainsRune("() \n\t\r", rune(s[j])) {
				j++
			}
			cur = append(cur, &sx{atom: s[i:j]})
			i = j
		}
	}
	return cur
}

func (n *sx) write(b *strings.Builder) {
	if !n.list {
		b.WriteString(n.atom)
		return
	}
	b.WriteByte('(')
	for i, k := range n.kids {
		if i > 0 {
			b.WriteByte(' ')
		}
		k.write(b)
	}
	b.WriteByte(')')
}

func (n *sx) String() string {
	var b strings.Builder
	n.write(&b)
	return b.String()
}

func (n *sx) head() string {
	if n.list && len(n.kids) > 0 && !n.kids[0].list {
		return n.kids[0].atom
	}
	return ""
}

func (n *sx) subst(v string, with *sx) *sx {
	if !n.list {
		if n.atom == v {
			return with
		}
		return n
	}
	// do not substitute under a binder of the same name
	if h := n.head(); (h == "forall" || h == "exists") && len(n.kids) >= 3 {
		for _, bd := range n.kids[1].kids {
			if bd.list && len(bd.kids) > 0 && bd.kids[0].atom == v {
				return n
			}
		}
	}
	out := &sx{list: true, kids: make([]*sx, len(n.kids))}
	for i, k := range n.kids {
		out.kids[i] = k.subst(v, with)
	}
	return out
}

func (n *sx) hasQuant() bool {
	if !n.list {
		return false
	}
	if h := n.head(); h == "forall" || h == "exists" {
		return true
	}
	for _, k := range n.kids {
		if k.hasQuant() {
			return true
		}
	}
	return false
}

func intLit(n *sx) (int, bool) {
	if n.list {
		if n.head() == "-" && len(n.kids) == 2 {
			if v, ok := intLit(n.kids[1]); ok {
				return -v, true
			}
		}
		return 0, false
	}
	v, err := strconv.Atoi(n.atom)
	return v, err == nil
}

// expandBounded rewrites (forall ((x Int)) (=> (and (<= lo x) (< x hi)) body)) with literal bounds
// (also <= x hi, and exists with 'and') into a finite conjunction / disjunction.
func expandBounded(n *sx, budget *int) *sx {
	if !n.list {
		return n
	}
	h := n.head()
	if (h == "forall" || h == "exists") && len(n.kids) == 3 && len(n.kids[1].kids) == 1 {
		bd := n.kids[1].kids[0]
		body := n.kids[2]
		if body.head() == "!" && len(body.kids) >= 2 {
			body = body.kids[1]
		}
		if bd.list && len(bd.kids) == 2 && bd.kids[1].atom == "Int" {
			v := bd.kids[0].atom
			var guard, rest *sx
			if h == "forall" && body.head() == "=>" && len(body.kids) == 3 {
				guard, rest = body.kids[1], body.kids[2]
			} else if h == "exists" && body.head() == "and" && len(body.kids) >= 3 {
				// (and (<= lo x) (< x hi) rest...)
				guard = &sx{list: true, kids: []*sx{{atom: "and"}, body.kids[1], body.kids[2]}}
				rest = &sx{list: true, kids: append([]*sx{{atom: "and"}}, body.kids[3:]...)}
				if len(body.kids) == 3 {
					rest = &sx{atom: "true"}
				}
			}
			if guard != nil && guard.head() == "and" && len(guard.kids) >= 3 {
				lo, hi, okLo, okHi := 0, 0, false, false
				for _, g := range guard.kids[1:] {
					if len(g.kids) != 3 {
						continue
					}
					op := g.head()
					if c, ok := intLit(g.kids[1]); ok && g.kids[2].atom == v {
						if op == "<=" {
							lo, okLo = c, true
						} else if op == "<" {
							lo, okLo = c+1, true
						}
					}
					if c, ok := intLit(g.kids[2]); ok && g.kids[1].atom == v {
						if op == "<" {
							hi, okHi = c, true
						} else if op == "<=" {
							hi, okHi = c+1, true
						}
					}
				}
				if okLo && okHi && hi-lo <= 256 && len(guard.kids) == 3 {
					*budget -= hi - lo
					if *budget >= 0 {
						op := "and"
						if h == "exists" {
							op = "or"
						}
						out := &sx{list: true, kids: []*sx{{atom: op}}}
						if h == "forall" {
							out.kids = append(out.kids, &sx{atom: "true"})
						} else {
							out.kids = append(out.kids, &sx{atom: "false"})
						}
						for i := lo; i < hi; i++ {
							lit := &sx{atom: strconv.Itoa(i)}
							if i < 0 {
								lit = &sx{list: true, kids: []*sx{{atom: "-"}, {atom: strconv.Itoa(-i)}}}
							}
							out.kids = append(out.kids, expandBounded(rest.subst(v, lit), budget))
						}
						return out
					}
				}
			}
		}
	}
	out := &sx{list: true, kids: make([]*sx, len(n.kids))}
	for i, k := range n.kids {
		out.kids[i] = expandBounded(k, budget)
	}
	return out
}

// collectCnt finds ground (cntP row k) / (cntNZ row k) applications with a literal k.
func collectCnt(n *sx, out map[string]*sx) {
	if !n.list {
		return
	}
	if h := n.head(); (h == "cntP" || h == "cntNZ") && len(n.kids) == 3 {
		if k, ok := intLit(n.kids[2]); ok && k >= 0 && k <= 256 && !n.kids[1].hasQuant() {
			out[n.String()] = n
		}
	}
	for _, k := range n.kids {
		collectCnt(k, out)
	}
}

func weakenQuant(n *sx, pos bool) (*sx, bool) {
	if !n.list || !n.hasQuant() {
		return n, true
	}
	h := n.head()
	switch h {
	case "forall", "exists":
		if pos {
			return &sx{atom: "true"}, true
		}
		return &sx{atom: "false"}, true
	case "and", "or":
		out := &sx{list: true, kids: []*sx{n.kids[0]}}
		for _, k := range n.kids[1:] {
			w, ok := weakenQuant(k, pos)
			if !ok {
				return nil, false
			}
			out.kids = append(out.kids, w)
		}
		return out, true
	case "not":
		w, ok := weakenQuant(n.kids[1], !pos)
		if !ok {
			return nil, false
		}
		return &sx{list: true, kids: []*sx{n.kids[0], w}}, true
	case "=>":
		if len(n.kids) == 3 {
			a, ok1 := weakenQuant(n.kids[1], !pos)
			b, ok2 := weakenQuant(n.kids[2], pos)
			if ok1 && ok2 {
				return &sx{list: true, kids: []*sx{n.kids[0], a, b}}, true
			}
		}
	}
	return nil, false
}

func modelQuery(query string) string {
	top := parseSx(query)
	var b strings.Builder
	budget := 20000
	cnts := map[string]*sx{}
	var asserts []*sx
	bound := map[string]bool{}
	for _, t := range top {
		switch t.head() {
		case "check-sat", "get-model", "set-option":
			continue
		case "assert":
			a := expandBounded(t.kids[1], &budget)
			// negated universal goal: skolemise
			for a.head() == "not" && len(a.kids) == 2 && a.kids[1].head() == "forall" {
				q := a.kids[1]
				body := q.kids[2]
				if body.head() == "!" {
					body = body.kids[1]
				}
				for _, bd := range q.kids[1].kids {
					name := bd.kids[0].atom
					sk := "sk!" + strings.NewReplacer("!", "_").Replace(name)
					if !bound[sk] {
						bound[sk] = true
						fmt.Fprintf(&b, "(declare-fun %s () %s)\n", sk, bd.kids[1].String())
					}
					body = body.subst(name, &sx{atom: sk})
				}
				a = expandBounded(&sx{list: true, kids: []*sx{{atom: "not"}, body}}, &budget)
			}
			if a.hasQuant() {
				// weakening: a quantified subformula in positive position becomes true, in negative
				// position false; if its polarity is unknown the whole assumption is dropped
				w, ok := weakenQuant(a, true)
				if !ok {
					continue
				}
				a = w
			}
			asserts = append(asserts, a)
			collectCnt(a, cnts)
		default:
			t.write(&b)
			b.WriteByte('\n')
		}
	}
	var names []string
	for k := range cnts {
		names = append(names, k)
	}
	sort.Strings(names)
	for _, k := range names {
		n := cnts[k]
		cnt, _ := intLit(n.kids[2])
		row := n.kids[1].String()
		var sum strings.Builder
		sum.WriteString("(+ 0 0")
		for i := 0; i < cnt; i++ {
			if n.head() == "cntP" {
				fmt.Fprintf(&sum, " (ite (not (= (select %s %d) null)) 1 0)", row, i)
			} else {
				fmt.Fprintf(&sum, " (ite (not (= (select %s %d) 0)) 1 0)", row, i)
			}
		}
		sum.WriteString(")")
		fmt.Fprintf(&b, "(assert (= %s %s))\n", k, sum.String())
	}
	for _, a := range asserts {
		b.WriteString("(assert ")
		a.write(&b)
		b.WriteString(")\n")
	}
	b.WriteString("(check-sat)\n")
	return b.String()
}

// ---------------------------------------------------------------------------
// Witness search for node-level obligations the solver refuted without a model (timeout /
// unknown over quantified assumptions). It never decides anything: the violation is already
// reported from the failed obligation. It only tries to attach a concrete failing input: an
// injected in-package test builds pseudo-random WELL-FORMED nodes of the class the obligation is
// about (constructed directly from a byte->child table, not with the code under test; node48
// slots are assigned with holes), runs the real operation and compares with the naive table
// oracle of the replay template. Bounded and seeded (VERIF_SEED); stated as such in the replay
// file. If no input fails the VIOLATION line keeps its no-failing-input-found suffix.
func witnessSearchNode(o *Obligation) map[string]any {
	m := nodeFnRe.FindStringSubmatch(o.Func)
	if m == nil {
		return nil
	}
	recv, op := m[1], m[2]
	classes := "0, 1, 2, 3"
	switch recv {
	case "node4":
		classes = "0"
	case "node16":
		classes = "1"
	case "node48":
		classes = "2"
	case "node256":
		classes = "3"
	}
	seed := int64(1)
	if v, err := strconv.ParseInt(os.Getenv("VERIF_SEED"), 10, 64); err == nil {
		seed = v
	}
	i := strings.Index(nodeReplayTemplate, "func TestVerifReplay")
	j := strings.Index(nodeReplayTemplate, "var (")
	k := strings.Index(nodeReplayTemplate, "func vrRef")
	// reuse the oracle (vrView) of the replay template; drop its data block and its test
	prelude := strings.ReplaceAll(nodeReplayTemplate[:j]+nodeReplayTemplate[k:i], "%%", "%")
	prelude = strings.Replace(prelude, "import (\n\t\"fmt\"", "import (\n\t\"fmt\"\n\t\"math/rand\"\n\t\"sort\"", 1)
	src := prelude + fmt.Sprintf(witnessSearchTemplate, classes, op, seed)
	rr := runReplayTest(src, o.Name)
	rr["how"] = fmt.Sprintf("witness search (bounded, seed %d): 4000 pseudo-random well-formed nodes per class built directly from a byte->child table; the real %s is run on each and compared with a naive table oracle. The solver gave no model for this obligation", seed, op)
	return rr
}

const witnessSearchTemplate = `
var vrObjects = map[int]unsafe.Pointer{}

// vrBuild: a well-formed node of class k holding the table tab (byte -> child).
func vrBuild(k nodeKind, tab map[byte]nodeRef, rng *rand.Rand) nodeRef {
	var bs []int
	for b := range tab {
		bs = append(bs, int(b))
	}
	sort.Ints(bs)
	switch k {
	case nodeKind4:
		n := &node4{}
		n.childrenLen = uint8(len(bs))
		for i, b := range bs {
			n.keys |= uint32(b) << (8 * i)
			n.children[i] = tab[byte(b)]
		}
		return nodeRef{pointer: unsafe.Pointer(n), tag: k}
	case nodeKind16:
		n := &node16{}
		n.childrenLen = uint8(len(bs))
		for i, b := range bs {
			n.keys[i] = byte(b)
			n.children[i] = tab[byte(b)]
		}
		return nodeRef{pointer: unsafe.Pointer(n), tag: k}
	case nodeKind48:
		n := &node48{}
		n.childrenLen = uint8(len(bs))
		slots := rng.Perm(48) // holes wherever the permutation leaves them
		for i, b := range bs {
			n.keys[b] = uint8(slots[i]) + 1
			n.children[slots[i]] = tab[byte(b)]
		}
		return nodeRef{pointer: unsafe.Pointer(n), tag: k}
	default:
		n := &node256{}
		n.childrenLen = uint8(len(bs))
		for _, b := range bs {
			n.children[b] = tab[byte(b)]
		}
		return nodeRef{pointer: unsafe.Pointer(n), tag: nodeKind256}
	}
}

func vrLeaf() nodeRef {
	return nodeRef{pointer: unsafe.Pointer(&alphaLeafNode[int]{}), tag: nodeKindLeaf}
}

func TestVerifReplay(t *testing.T) {
	classes := []nodeKind{%s}
	op := %q
	rng := rand.New(rand.NewSource(%d))
	lo := map[nodeKind]int{nodeKind4: 1, nodeKind16: 3, nodeKind48: 12, nodeKind256: 37}
	hi := map[nodeKind]int{nodeKind4: 4, nodeKind16: 16, nodeKind48: 48, nodeKind256: 255}
	for trial := 0; trial < 4000; trial++ {
		k := classes[trial%%len(classes)]
		m := lo[k] + rng.Intn(hi[k]-lo[k]+1)
		if trial%%7 == 0 {
			m = hi[k] // full node: the add grows it
		}
		if trial%%11 == 0 {
			m = lo[k] + 1 // around the shrink threshold
		}
		tab := map[byte]nodeRef{}
		for len(tab) < m {
			c := vrLeaf()
			if rng.Intn(8) == 0 {
				c = nodeRef{pointer: unsafe.Pointer(&node4{}), tag: nodeKind4}
			}
			tab[byte(rng.Intn(256))] = c
		}
		ref := vrBuild(k, tab, rng)
		before, err := vrView(ref)
		if err != nil || len(before) != len(tab) {
			t.Fatalf("witness builder produced a malformed node: %%v", err)
		}
		desc := func() string {
			var bs []int
			for b := range tab {
				bs = append(bs, int(b))
			}
			sort.Ints(bs)
			s := fmt.Sprintf("%%v node with %%d children under bytes %%v", k, len(bs), bs)
			if k == nodeKind48 {
				n := (*node48)(ref.pointer)
				s += fmt.Sprintf(", slot of each byte (1-based) %%v", func() (o []uint8) {
					for _, b := range bs {
						o = append(o, n.keys[b])
					}
					return
				}())
			}
			return s
		}
		before0 := desc()
		var b byte
		switch op {
		case "findChild":
			b = byte(rng.Intn(256))
			got := ref.findChild(b)
			want, present := before[b]
			if present != (got != nil) || (got != nil && *got != want) {
				t.Fatalf("findChild(%%#x) on %%s: got %%v, the table has (%%v, present=%%v)", b, before0, got, want, present)
			}
		case "addChild":
			if len(tab) >= 255 {
				continue
			}
			for {
				b = byte(rng.Intn(256))
				if _, present := before[b]; !present {
					break
				}
			}
			child := vrLeaf()
			ref.addChild(b, child)
			after, err := vrView(ref)
			if err != nil {
				t.Fatalf("addChild(%%#x) on %%s leaves a malformed node: %%v", b, before0, err)
			}
			before[b] = child
			if len(after) != len(before) {
				t.Fatalf("addChild(%%#x) on %%s: %%d children expected afterwards, %%d found", b, before0, len(before), len(after))
			}
			for kb, v := range before {
				if after[kb] != v {
					t.Fatalf("addChild(%%#x) on %%s: byte %%#x maps to %%v afterwards, expected %%v", b, before0, kb, after[kb], v)
				}
			}
		case "deleteChild":
			var bs []int
			for kb := range before {
				bs = append(bs, int(kb))
			}
			sort.Ints(bs)
			b = byte(bs[rng.Intn(len(bs))])
			delete(before, b)
			if len(before) == 0 {
				continue
			}
			ref.deleteChild(b)
			if k == nodeKind4 && len(before) == 1 {
				for _, v := range before {
					if ref.pointer != v.pointer || ref.tag != v.tag {
						t.Fatalf("deleteChild(%%#x) on %%s: slot holds %%v, expected the surviving child %%v", b, before0, ref, v)
					}
				}
				continue
			}
			after, err := vrView(ref)
			if err != nil {
				t.Fatalf("deleteChild(%%#x) on %%s leaves a malformed node: %%v", b, before0, err)
			}
			if len(after) != len(before) {
				t.Fatalf("deleteChild(%%#x) on %%s: %%d children expected afterwards, %%d found", b, before0, len(before), len(after))
			}
			for kb, v := range before {
				if after[kb] != v {
					t.Fatalf("deleteChild(%%#x) on %%s: byte %%#x maps to %%v afterwards, expected %%v", b, before0, kb, after[kb], v)
				}
			}
		}
	}
}
`

// ---------------------------------------------------------------------------
// Witness search at tree level. Like witnessSearchNode it decides nothing: it runs after a
// tree-level obligation has been refuted and only tries to attach a concrete failing history.
// An injected in-package test drives the real tree of the kind the obligation is about through
// seeded pseudo-random histories over a small key universe next to a reference map and compares
// every observable (Search, Size, All/Backward, Minimum/Maximum, Range, Prefix, TopK/BottomK,
// early stop, re-iteration). Each mismatch has a class; the violation of property P counts as
// confirmed only if the first mismatch is of a class that P speaks about.
var witnessClasses = map[string][]string{
	"C01": {"search", "delete", "panic"},
	"C02": {"iter"},
	"C03": {"range", "panic"},
	"C04": {"prefix", "panic"},
	"C05": {"minmax", "topk", "panic"},
	"C06": {"size"},
	"C14": {"earlystop", "reiter", "panic"},
	"C13": {"keymut"},
	"C15": {"querymut"},
}

func treeKindOf(fn string) string {
	for _, k := range []string{"alpha", "unsigned", "signed", "float", "collation"} {
		if strings.Contains(fn, k+"SortedTree") || strings.HasSuffix(fn, "@"+k) {
			return k
		}
	}
	return ""
}

func witnessSearchTree(prop string, o *Obligation) map[string]any {
	classes := witnessClasses[prop]
	if len(classes) == 0 || nodeFnRe.MatchString(o.Func) {
		return nil
	}
	kind := treeKindOf(o.Func)
	if strings.Contains(o.Func, "compound") {
		return nil
	}
	seed := int64(1)
	if v, err := strconv.ParseInt(os.Getenv("VERIF_SEED"), 10, 64); err == nil {
		seed = v
	}
	src := fmt.Sprintf(treeWitnessTemplate, kind, seed)
	rr := runReplayTest(src, o.Name)
	out, _ := rr["output"].(string)
	rr["how"] = fmt.Sprintf("witness search (bounded, seed %d): pseudo-random histories over a small key universe on the real tree next to a reference map; every observable compared. The solver gave no replayable model for this obligation", seed)
	if c, _ := rr["confirmed"].(bool); c {
		cls := ""
		if m := regexp.MustCompile(`MISMATCH\[([a-z]+)\]`).FindStringSubmatch(out); m != nil {
			cls = m[1]
		} else if strings.Contains(out, "panic:") {
			cls = "panic"
		}
		rr["mismatch_class"] = cls
		ok := false
		for _, c := range classes {
			if c == cls {
				ok = true
			}
		}
		if !ok {
			rr["confirmed"] = false
			rr["note"] = "the real code misbehaves on this history, but in an observable this property does not speak about; not counted as a failing input of this property"
		}
	}
	return rr
}

const treeWitnessTemplate = `package art

import (
	"fmt"
	"math/rand"
	"sort"
	"strings"
	"testing"
)

type vwKind[K any] struct {
	name   string
	mk     func() Tree[K, int]
	less   func(a, b K) bool
	gen    func(r *rand.Rand) K
	prefix func(k, p K) bool // nil: Prefix not defined for this kind
	cut    func(k K, r *rand.Rand) K
}

func vwRun[K any](t *testing.T, kd vwKind[K], seed int64) {
	rng := rand.New(rand.NewSource(seed))
	for h := 0; h < 150; h++ {
		tr := kd.mk()
		var keys []K
		target := 6 + rng.Intn(60)
		if kd.name == "unsigned" && h%%3 == 0 {
			target = 100 + rng.Intn(60) // dense: nodes of the 48 and 256 classes
		}
		for len(keys) < target {
			keys = append(keys, kd.gen(rng))
		}
		ref := map[string]int{}
		orig := map[string]K{}
		id := func(k K) string { return fmt.Sprintf("%%#v", k) }
		var hist []string
		fail := func(class, format string, a ...any) {
			t.Fatalf("MISMATCH[%%s] %%s tree, after history %%s: %%s", class, kd.name, strings.Join(hist, "; "), fmt.Sprintf(format, a...))
		}
		sorted := func() []K {
			var ks []K
			for s := range ref {
				ks = append(ks, orig[s])
			}
			sort.Slice(ks, func(i, j int) bool { return kd.less(ks[i], ks[j]) })
			return ks
		}
		collect := func(seq func(func(K, int) bool)) (ks []K, vs []int) {
			seq(func(k K, v int) bool { ks = append(ks, k); vs = append(vs, v); return true })
			return
		}
		same := func(class, what string, got []K, gotV []int, want []K) {
			if len(got) != len(want) {
				fail(class, "%%s yields %%d pairs %%v, expected %%d %%v", what, len(got), got, len(want), want)
			}
			for i := range want {
				if id(got[i]) != id(want[i]) || gotV[i] != ref[id(want[i])] {
					fail(class, "%%s: element %%d is (%%v,%%d), expected (%%v,%%d); got %%v want %%v", what, i, got[i], gotV[i], want[i], ref[id(want[i])], got, want)
				}
			}
		}
		nops := 20 + rng.Intn(120)
		if target >= 100 {
			nops = 200 + rng.Intn(200)
		}
		for op := 0; op < nops; op++ {
			k := keys[rng.Intn(len(keys))]
			switch rng.Intn(10) {
			case 0, 1, 2, 3, 4:
				v := rng.Intn(1000)
				hist = append(hist, fmt.Sprintf("Insert(%%v,%%d)", k, v))
				tr.Insert(k, v)
				ref[id(k)], orig[id(k)] = v, k
			case 5, 6, 7:
				hist = append(hist, fmt.Sprintf("Delete(%%v)", k))
				_, want := ref[id(k)]
				if got := tr.Delete(k); got != want {
					fail("delete", "Delete(%%v) = %%v, expected %%v", k, got, want)
				}
				delete(ref, id(k))
			default:
				hist = append(hist, fmt.Sprintf("Search(%%v)", k))
			}
			if tr.Size() != len(ref) {
				fail("size", "Size() = %%d with %%d keys stored", tr.Size(), len(ref))
			}
			for i := 0; i < 3; i++ {
				q := keys[rng.Intn(len(keys))]
				if i == 0 {
					q = k
				}
				want, present := ref[id(q)]
				if got, ok := tr.Search(q); ok != present || (ok && got != want) {
					fail("search", "Search(%%v) = (%%d,%%v), expected (%%d,%%v)", q, got, ok, want, present)
				}
			}
			if op%%6 != 5 {
				continue
			}
			want := sorted()
			ks, vs := collect(tr.All())
			same("iter", "All()", ks, vs, want)
			snapK, snapV, snapSize := ks, vs, tr.Size()
			rev := make([]K, len(want))
			for i := range want {
				rev[len(want)-1-i] = want[i]
			}
			ks, vs = collect(tr.Backward())
			same("iter", "Backward()", ks, vs, rev)
			if mk, mv, ok := tr.Minimum(); ok != (len(want) > 0) || (ok && (id(mk) != id(want[0]) || mv != ref[id(want[0])])) {
				fail("minmax", "Minimum() = (%%v,%%d,%%v), sorted content %%v", mk, mv, ok, want)
			}
			if mk, mv, ok := tr.Maximum(); ok != (len(want) > 0) || (ok && (id(mk) != id(rev[0]) || mv != ref[id(rev[0])])) {
				fail("minmax", "Maximum() = (%%v,%%d,%%v), sorted content %%v", mk, mv, ok, want)
			}
			for _, n := range []int{0, 1, rng.Intn(len(want) + 2), len(want) + 3} {
				m := min(n, len(want))
				ks, vs = collect(tr.BottomK(uint(n)))
				same("topk", fmt.Sprintf("BottomK(%%d)", n), ks, vs, want[:m])
				seq := tr.TopK(uint(n))
				ks, vs = collect(seq)
				same("topk", fmt.Sprintf("TopK(%%d)", n), ks, vs, rev[:m])
				ks, vs = collect(seq)
				same("reiter", fmt.Sprintf("second pass over TopK(%%d)", n), ks, vs, rev[:m])
			}
			// early stop: call the sequence function directly with a yield that says stop
			for _, c := range []struct {
				name string
				seq  func(func(K, int) bool)
				all  []K
			}{{"All()", tr.All(), want}, {"Backward()", tr.Backward(), rev}, {"TopK(size)", tr.TopK(uint(len(want))), rev}, {"BottomK(size)", tr.BottomK(uint(len(want))), want}} {
				if len(c.all) == 0 {
					continue
				}
				stopAt, calls := rng.Intn(len(c.all)), 0
				c.seq(func(K, int) bool { calls++; return calls <= stopAt })
				if calls != stopAt+1 {
					fail("earlystop", "%%s: yield returned false at call %%d but was called %%d times", c.name, stopAt+1, calls)
				}
				ks, vs = collect(c.seq)
				same("reiter", "second pass over "+c.name, ks, vs, c.all)
			}
			a, b := keys[rng.Intn(len(keys))], keys[rng.Intn(len(keys))]
			lo, hi := a, b
			if kd.less(hi, lo) {
				lo, hi = hi, lo
			}
			var inr []K
			for _, x := range want {
				if !kd.less(x, lo) && !kd.less(hi, x) {
					inr = append(inr, x)
				}
			}
			if kd.name != "collation" {
				ks, vs = collect(tr.Range(a, b))
				same("range", fmt.Sprintf("Range(%%v,%%v)", a, b), ks, vs, inr)
			}
			if kd.prefix != nil {
				p := kd.cut(a, rng)
				var wp []K
				for _, x := range want {
					if kd.prefix(x, p) {
						wp = append(wp, x)
					}
				}
				ks, vs = collect(tr.Prefix(p))
				same("prefix", fmt.Sprintf("Prefix(%%v)", p), ks, vs, wp)
			}
			// the queries above must not have changed the content
			ks, vs = collect(tr.All())
			if tr.Size() != snapSize || len(ks) != len(snapK) {
				fail("querymut", "content changed by queries: %%d pairs / Size %%d before, %%d / %%d after", len(snapK), snapSize, len(ks), tr.Size())
			}
			for i := range ks {
				if id(ks[i]) != id(snapK[i]) || vs[i] != snapV[i] {
					fail("querymut", "content changed by queries at position %%d: (%%v,%%d) became (%%v,%%d)", i, snapK[i], snapV[i], ks[i], vs[i])
				}
			}
		}
	}
}

// vwKeyMut: byte-slice keys are neither written to nor retained by reference (C13).
func vwKeyMut(t *testing.T) {
	tr := NewAlphaSortedTree[[]byte, int]()
	fill := func() ([]byte, []byte) {
		buf := make([]byte, 3, 16)
		copy(buf, "abc")
		spare := buf[:16]
		for i := 3; i < 16; i++ {
			spare[i] = 'Z'
		}
		return buf, spare
	}
	check := func(op string, spare []byte) {
		if string(spare[:3]) != "abc" {
			t.Fatalf("MISMATCH[keymut] %%s changed the key argument itself: %%q", op, spare[:3])
		}
		for i := 3; i < 16; i++ {
			if spare[i] != 'Z' {
				t.Fatalf("MISMATCH[keymut] %%s wrote into the spare capacity of the caller's key slice (byte %%d is %%#x)", op, i, spare[i])
			}
		}
	}
	buf, spare := fill()
	tr.Insert(buf, 1)
	check("Insert", spare)
	tr.Insert([]byte("abd"), 2)
	buf[0] = 'x' // the caller reuses its slice
	if v, ok := tr.Search([]byte("abc")); !ok || v != 1 {
		t.Fatalf("MISMATCH[keymut] the stored key aliases the caller's slice: after the caller overwrote its buffer Search(\"abc\") = (%%d,%%v)", v, ok)
	}
	buf, spare = fill()
	tr.Search(buf)
	check("Search", spare)
	for range tr.Range(buf, []byte("abz")) {
	}
	check("Range", spare)
	for range tr.Prefix(buf[:2]) {
	}
	check("Prefix", spare)
	tr.Delete(buf)
	check("Delete", spare)
}

var vwPool []string

// vwWord: keys come in families - a fresh word, or an earlier word with one byte changed - so that
// stored and absent keys differ in a single position anywhere, including inside long shared prefixes.
func vwWord(r *rand.Rand) string {
	if len(vwPool) > 0 && r.Intn(3) == 0 {
		b := []byte(vwPool[r.Intn(len(vwPool))])
		b[r.Intn(len(b))] = []byte{'a', 'b', 'p', 'q', 0x80, 0xff}[r.Intn(6)]
		return string(b)
	}
	w := vwFresh(r)
	if len(vwPool) < 64 {
		vwPool = append(vwPool, w)
	} else {
		vwPool[r.Intn(64)] = w
	}
	return w
}

func vwFresh(r *rand.Rand) string {
	// small alphabet, bytes >= 0x80, shared prefixes longer than the inline limit, no 0x00 (known finding F8)
	alpha := []byte{'a', 'b', 'c', 0x7f, 0x80, 0xff}
	var b []byte
	// shared prefixes: none, short, and two lengths beyond the 10 bytes a node keeps inline
	b = append(b, []string{"", "", "ppp", "pppppppppppp", "pppppppppppppp"}[r.Intn(5)]...)
	if len(b) > 0 && r.Intn(5) == 0 {
		b[r.Intn(len(b))] = 'q' // diverge somewhere inside the shared prefix
	}
	for n := 1 + r.Intn(5); n > 0; n-- {
		b = append(b, alpha[r.Intn(len(alpha))])
	}
	return string(b)
}

func TestVerifReplay(t *testing.T) {
	kind, seed0 := %q, int64(%d)
	for _, seed := range []int64{seed0, seed0 + 7919, seed0 + 15838} {
		vwReplayOne(t, kind, seed)
	}
}

func vwReplayOne(t *testing.T, kind string, seed int64) {
	if kind == "" || kind == "alpha" {
		vwKeyMut(t)
		vwRun(t, vwKind[string]{name: "alpha", mk: func() Tree[string, int] { return NewAlphaSortedTree[string, int]() },
			less: func(a, b string) bool { return a < b }, gen: vwWord,
			prefix: strings.HasPrefix, cut: func(k string, r *rand.Rand) string { return k[:r.Intn(len(k)+1)] }}, seed)
	}
	if kind == "" || kind == "unsigned" {
		vwRun(t, vwKind[uint32]{name: "unsigned", mk: func() Tree[uint32, int] { return NewUnsignedBinaryTree[uint32, int]() },
			less: func(a, b uint32) bool { return a < b },
			// 64 distinct low bytes including 0xff: nodes of every size class, children under the last byte
			gen: func(r *rand.Rand) uint32 { return uint32(r.Intn(2))<<24 | uint32(r.Intn(8)/7)<<8 | uint32(r.Intn(64)*4+3) }}, seed)
	}
	if kind == "" || kind == "signed" {
		vwRun(t, vwKind[int32]{name: "signed", mk: func() Tree[int32, int] { return NewSignedBinaryTree[int32, int]() },
			less: func(a, b int32) bool { return a < b },
			gen:  func(r *rand.Rand) int32 { return int32(r.Intn(600)-300) * int32(1+r.Intn(2)*65535) }}, seed)
	}
	if kind == "" || kind == "float" {
		vwRun(t, vwKind[float64]{name: "float", mk: func() Tree[float64, int] { return NewFloatBinaryTree[float64, int]() },
			less: func(a, b float64) bool { return a < b },
			gen:  func(r *rand.Rand) float64 { return float64(r.Intn(200)-100) / 4 * float64(1+r.Intn(2)*1000) }}, seed)
	}
	if kind == "" || kind == "collation" {
		vwRun(t, vwKind[string]{name: "collation", mk: func() Tree[string, int] { return NewCollationSortedTree[string, int]() },
			less: func(a, b string) bool { return a < b },
			gen: func(r *rand.Rand) string {
				b := make([]byte, 1+r.Intn(6))
				for i := range b {
					b[i] = "abcdxyz"[r.Intn(7)]
				}
				return string(b)
			},
			prefix: strings.HasPrefix, cut: func(k string, r *rand.Rand) string { return k[:r.Intn(len(k)+1)] }}, seed)
	}
}
`
