package main

// Path-based symbolic executor over go/ssa. Every path from the function
// entry (or from a loop cut) to a return, panic or back edge is explored; the
// state carries the path condition, the functional heap, local cells and the
// source-name bindings seen along the path. Obligations are emitted for
// safety conditions, callee preconditions, loop invariants and postconditions.

import (
	"fmt"
	"go/ast"
	"go/constant"
	"go/token"
	"go/types"
	"math/big"
	"os"
	"sort"
	"strings"

	"golang.org/x/tools/go/ssa"
)

type bigInt = big.Int

var bigOne = big.NewInt(1)

func bigFromInt64(n int64) *big.Int { return big.NewInt(n) }

func intRange(w int, signed bool) (lo, hi *big.Int) {
	if signed {
		hi = new(big.Int).Lsh(bigOne, uint(w-1))
		lo = new(big.Int).Neg(hi)
		return
	}
	return big.NewInt(0), new(big.Int).Lsh(bigOne, uint(w))
}

type State struct {
	pc       []Term
	pcSet    map[string]bool
	heap     map[string]Term
	cells    map[int]Value
	names    map[string]Value // source-level names bound along this path (innermost frame)
	ghost    map[string]Value
	trace    []string // branch decisions, for naming/debugging
	visits   map[*ssa.BasicBlock]int
	dead     bool
	neq      map[string]bool       // syntactically known disequalities "a|b"
	frames   map[string]*frameInfo // havoc array symbol -> frame fact (see sel)
	freshAt  map[string]int        // fresh object symbol -> allocation serial
	serial   int
	eqc      map[string]string // term -> simpler equal term (constants, parameters) known from assumptions
	lazy     []*lazyU          // universally quantified assumptions over objects, instantiated on demand
	lazyDone map[string]bool
	collect  *[]Term // when set, assumptions are collected here instead of the path condition (quantifier bodies)
}

func (s *State) clone() *State {
	n := &State{pc: s.pc[:len(s.pc):len(s.pc)], pcSet: s.pcSet, dead: s.dead, neq: s.neq, eqc: s.eqc, frames: s.frames, freshAt: s.freshAt, serial: s.serial, lazy: s.lazy[:len(s.lazy):len(s.lazy)], lazyDone: s.lazyDone}
	n.heap = make(map[string]Term, len(s.heap))
	for k, v := range s.heap {
		n.heap[k] = v
	}
	n.cells = make(map[int]Value, len(s.cells))
	for k, v := range s.cells {
		n.cells[k] = v
	}
	n.names = make(map[string]Value, len(s.names))
	for k, v := range s.names {
		n.names[k] = v
	}
	n.ghost = make(map[string]Value, len(s.ghost))
	for k, v := range s.ghost {
		n.ghost[k] = v
	}
	n.visits = make(map[*ssa.BasicBlock]int, len(s.visits))
	for k, v := range s.visits {
		n.visits[k] = v
	}
	n.trace = s.trace[:len(s.trace):len(s.trace)]
	return n
}

type Frame struct {
	fn    *ssa.Function
	env   map[ssa.Value]Value
	prev  *ssa.BasicBlock
	depth int
	top   bool
	names map[string]Value // saved caller names (restored on return)
	ret   func(s *State, results []Value)
	// return index bookkeeping for obligation names
	contract *Contract
	entry    *State // state at function entry (top frame only)
	lastRet  *ssa.Return
	args     []Value
}

type Exec struct {
	renames         map[string]string        // contract name of a local -> its current name (pure renames, by declaration position)
	nullableResults bool                     // set while the results of a contract call are created
	visited         map[*ssa.BasicBlock]bool // blocks of the function under verification some explored path entered
	staticSeen      map[string]bool
	fvCells         map[string]int // free variables of the function under verification: spec name -> cell
	prog            *Program
	st              *Symtab
	mode            Mode
	fn              *ssa.Function
	fnName          string
	contract        *Contract
	obs             []*Obligation
	layouts         *Layouts
	heapSorts       map[string]string
	bindings        map[string]types.Type // type parameter name -> binding
	cellN           int
	nodeRefType     types.Type
	errors          []string
	obN             map[string]int
	paths           int
	maxPaths        int
	retN            int
	layer           string
	covers          []*Obligation
	callDepthLimit  int
	opts            map[string]string
	assignedHeaps   map[string]bool // heap arrays stored to by the top-level function (frame check)
	inRel           bool
	lastRet         *ssa.Return
	caseLabels      map[string]string // goal sub-term -> label of the case it proves (forallref case split)
	callAssumesUsed map[string]bool
}

func NewExec(p *Program, st *Symtab, fnName string) (*Exec, error) {
	base := fnName
	if i := strings.Index(base, "@"); i >= 0 {
		base = base[:i] // kind-specific contract variant of a shared function
	}
	fn := p.Funcs[normName(base)]
	if fn == nil {
		return nil, fmt.Errorf("function %q not found", fnName)
	}
	ex := &Exec{prog: p, st: st, fn: fn, fnName: normName(fnName), layouts: NewLayouts(), heapSorts: map[string]string{},
		bindings: map[string]types.Type{}, obN: map[string]int{}, maxPaths: 4000, callDepthLimit: 6, opts: map[string]string{},
		assignedHeaps: map[string]bool{}, callAssumesUsed: map[string]bool{}, caseLabels: map[string]string{}}
	ex.layouts.RegisterLeafClasses(p.Pkg.Types)
	if c := p.CF.Contracts[fnName]; c != nil && len(c.Locals) > 0 {
		ex.renames = localRenames(c.Locals, orderedLocals(fn))
	}
	renamesOf = ex.renames
	if c := p.CF.Contracts[fnName]; c != nil {
		ex.contract = c
		ex.mode = c.Mode
		for k, v := range c.Opts {
			ex.opts[k] = v
		}
	}
	if obj := p.Pkg.Types.Scope().Lookup("nodeRef"); obj != nil {
		ex.nodeRefType = obj.Type()
	}
	return ex, nil
}

func (ex *Exec) errorf(format string, a ...any) {
	msg := fmt.Sprintf(format, a...)
	for _, e := range ex.errors {
		if e == msg {
			return
		}
	}
	ex.errors = append(ex.errors, msg)
}

type unsupported struct{ msg string }

func (ex *Exec) unsupported(format string, a ...any) {
	panic(unsupported{fmt.Sprintf(format, a...)})
}

// emit records an obligation under the current path condition.
func (ex *Exec) emit(s *State, kind, name string, goal Term, pos token.Pos, note string) {
	if s.dead {
		return
	}
	// one query per conjunct: smaller queries, and a failure names the clause that broke
	if kind == "ensures" || kind == "invariant" || kind == "requires" || kind == "pool" {
		if lbl, ok := ex.caseLabels[goal.S]; ok {
			delete(ex.caseLabels, goal.S)
			ex.emit(s, kind, name+"["+lbl+"]", goal, pos, note)
			return
		}
		if parts := conjuncts1(goal); len(parts) > 1 {
			for i, p := range parts {
				ex.emit(s, kind, fmt.Sprintf("%s.%d", name, i+1), p, pos, note)
			}
			return
		}
	}
	if goal.IsTrue() && kind != "ensures" && kind != "rel" && kind != "chain" && kind != "invariant" {
		return
	}
	full := name
	ex.obN[full]++
	if n := ex.obN[full]; n > 1 {
		full = fmt.Sprintf("%s~%d", name, n)
	}
	o := &Obligation{Name: full, Func: ex.fnName, Kind: kind, Pos: ex.prog.Pos(pos), Assume: s.pc[:len(s.pc):len(s.pc)], Goal: goal, Note: note}
	if goal.IsTrue() {
		// decided by the term simplifier (goal is literally true)
		o.Result, o.Solver = "unsat", "simplifier"
		o.Assume = nil
	}
	ex.obs = append(ex.obs, o)
}

// check = emit + assume (assert-then-assume)
func (ex *Exec) check(s *State, kind, name string, goal Term, pos token.Pos, note string) {
	ex.emit(s, kind, name, goal, pos, note)
	s.assume(goal)
}

// nm names a large term by a fresh constant so that terms (kept as strings) do not
// grow exponentially along a path; the defining equation is a path assumption.
func (ex *Exec) nm(s *State, t Term) Term {
	if len(t.S) < 400 {
		return t
	}
	c := ex.st.Fresh("t", t.Sort)
	s.assume(Eq(c, t))
	return c
}

func (ex *Exec) nmValue(s *State, v Value) Value {
	switch x := v.(type) {
	case IntV:
		x.T = ex.nm(s, x.T)
		return x
	case BoolV:
		x.T = ex.nm(s, x.T)
		return x
	case RefV:
		x.T = ex.nm(s, x.T)
		return x
	case FloatV:
		x.Bits = ex.nm(s, x.Bits)
		return x
	}
	return v
}

func (ex *Exec) newCell(v Value) int {
	ex.cellN++
	return ex.cellN
}

// ---------------------------------------------------------------------------
// entry point: verify the function against its contract

func (ex *Exec) Run() (err error) {
	defer func() {
		if r := recover(); r != nil {
			if u, ok := r.(unsupported); ok {
				err = fmt.Errorf("unsupported: %s", u.msg)
				return
			}
			// a value of a shape the executor has no case for (type assertion, nil map ...): the
			// function is outside the verified subset - reported as a generation error, never a crash
			if os.Getenv("GOVC_PANIC") != "" {
				panic(r)
			}
			err = fmt.Errorf("unsupported: construct outside the verified subset (executor: %v)", r)
		}
	}()
	fn := ex.fn
	if fn.Blocks == nil {
		return fmt.Errorf("function %s has no body", ex.fnName)
	}
	s := &State{pcSet: map[string]bool{}, heap: map[string]Term{}, cells: map[int]Value{}, names: map[string]Value{}, ghost: map[string]Value{}, visits: map[*ssa.BasicBlock]int{}}
	// type parameter bindings from options: "opt bind K=[]byte"
	if b, ok := ex.opts["bind"]; ok {
		for _, kv := range strings.Fields(b) {
			p := strings.SplitN(kv, "=", 2)
			switch p[1] {
			case "[]byte":
				ex.bindings[p[0]] = types.NewSlice(types.Typ[types.Uint8])
			case "string":
				ex.bindings[p[0]] = types.Typ[types.String]
			default:
				return fmt.Errorf("unknown binding %s", kv)
			}
		}
	}
	var args []Value
	for _, p := range fn.Params {
		v := ex.symbolicParam(s, p.Name(), p.Type())
		args = append(args, v)
	}
	var fvs []Value
	for _, fv := range fn.FreeVars {
		// free variables are pointers to cells holding the captured variable
		pt := fv.Type().Underlying().(*types.Pointer)
		cell := ex.newCell(nil)
		s.cells[cell] = ex.symbolicParam(s, fv.Name(), pt.Elem())
		fvs = append(fvs, PtrV{Kind: PCell, Cell: cell, Elem: pt.Elem()})
		s.names[fv.Name()] = s.cells[cell]
		if ex.fvCells == nil {
			ex.fvCells = map[string]int{}
		}
		// "jump$1" (synthetic range-over-func state) is written jump_1 in contracts
		ex.fvCells[strings.ReplaceAll(fv.Name(), "$", "_")] = cell
	}
	fr := &Frame{fn: fn, env: map[ssa.Value]Value{}, top: true, contract: ex.contract, args: args}
	for i, p := range fn.Params {
		fr.env[p] = args[i]
		s.names[p.Name()] = args[i]
	}
	for i, fv := range fn.FreeVars {
		fr.env[fv] = fvs[i]
	}
	// lets and requires
	env := &SpecEnv{ex: ex, cur: s, old: s, vars: map[string]Value{}}
	if ex.contract != nil {
		for _, l := range ex.contract.Lets {
			v := env.eval(l.Expr)
			s.ghost[l.Label] = v
		}
		if len(ex.contract.ClosureInv) > 0 {
			// body closure of a range-over-func loop: earlier calls may have happened
			s.ghost["stopped"] = BoolV{T: ex.st.Fresh("stopped.entry", SBool)}
		}
		for _, r := range ex.contract.Captures {
			s.assume(env.evalAssume(r.Expr))
		}
		for _, r := range ex.contract.ClosureInv {
			s.assume(env.evalAssume(r.Expr))
		}
		for _, r := range ex.contract.Requires {
			s.assume(env.evalAssume(r.Expr))
		}
		if len(ex.contract.Captures) > 0 {
			// the captured variables the clauses talk about are never written by the closure itself
			// (otherwise a second call could see a different value than the creator established)
			for _, fv := range fn.FreeVars {
				ok, detail := true, ""
				for _, r := range *fv.Referrers() {
					if st, isSt := r.(*ssa.Store); isSt && st.Addr == fv {
						ok, detail = false, "closure stores to captured variable "+fv.Name()
					} else if _, isLoad := r.(*ssa.UnOp); !isLoad {
						if _, isDbg := r.(*ssa.DebugRef); !isDbg && ok {
							ok, detail = false, fmt.Sprintf("captured variable %s escapes through %T", fv.Name(), r)
						}
					}
				}
				ex.obs = append(ex.obs, staticOb(ex.layer+"/"+ex.fnName+"/captures/stable:"+fv.Name(), ex.fnName, "captured variable is read-only inside the closure", ok, detail))
			}
		}
	}
	fr.entry = s.clone()
	// vacuity probe: precondition satisfiable
	ex.covers = append(ex.covers, &Obligation{Name: ex.layer + "/" + ex.fnName + "/cover/requires", Func: ex.fnName, Kind: "cover", Cover: true, Assume: s.pc[:len(s.pc):len(s.pc)], Goal: True})
	fr.ret = func(rs *State, results []Value) {
		ex.retN++
		ex.checkPost(fr, rs, results, ex.retN)
		if ex.contract != nil {
			ex.chains(fr, rs, args, results)
			ex.rels(fr, rs, args, results)
		}
	}
	ex.runBlock(s, fr, fn.Blocks[0], 0)
	// reachability: a block with real work (a call or a store) that no explored path enters means
	// the executor - or a contract it applied - has assumed that code away; its obligations would
	// be missing without anyone noticing. Blocks that only panic are expected to be unreachable.
	var unreached []string
	typeSwitch := false
	for _, b := range fn.Blocks {
		for _, in := range b.Instrs {
			if _, ok := in.(*ssa.TypeAssert); ok {
				typeSwitch = true // an instantiated type switch has dead cases by construction
			}
		}
	}
	if typeSwitch {
		return nil
	}
	for _, b := range fn.Blocks {
		if ex.visited[b] || len(b.Preds) == 0 && b != fn.Blocks[0] {
			continue
		}
		work := false
		var at token.Pos
		for _, in := range b.Instrs {
			switch x := in.(type) {
			case *ssa.Call:
				if _, isB := x.Call.Value.(*ssa.Builtin); !isB {
					work, at = true, x.Pos()
				}
			case *ssa.Store:
				work, at = true, x.Pos()
			}
		}
		if _, isPanic := b.Instrs[len(b.Instrs)-1].(*ssa.Panic); isPanic || !work {
			continue
		}
		unreached = append(unreached, ex.anchor(at)+" ("+ex.prog.Pos(at)+")")
	}
	ex.obs = append(ex.obs, staticOb(fmt.Sprintf("%s/%s/reach@all_work_blocks", ex.layer, ex.fnName), ex.fnName,
		"every block with a call or a store is entered by some explored path", len(unreached) == 0,
		"no explored path enters: "+strings.Join(unreached, "; ")+" - the code there is not covered by any obligation"))
	return nil
}

// runInline executes f on args from state s and calls ret for every returning path.
func (ex *Exec) runInline(s *State, f *ssa.Function, args []Value, entry *State, ret func(*State, []Value)) {
	nf := &Frame{fn: f, env: map[ssa.Value]Value{}, depth: 1, entry: entry}
	for i, p := range f.Params {
		nf.env[p] = args[i]
	}
	saved := s.names
	s.names = map[string]Value{}
	for i, p := range f.Params {
		s.names[p.Name()] = args[i]
	}
	nf.ret = func(rs *State, results []Value) {
		rs.names = saved
		ret(rs, results)
	}
	ex.runBlock(s, nf, f.Blocks[0], 0)
}

// chains: after the function returns, run a second function on its results and check a relation
// (e.g. Restore(Transform(k)) == k).
func (ex *Exec) chains(fr *Frame, s *State, args []Value, results []Value) {
	for _, ch := range ex.contract.Chains {
		callee := ex.prog.Funcs[normName(ch.Callee)]
		if callee == nil || callee.Blocks == nil {
			ex.errorf("chain: function %s not found", ch.Callee)
			continue
		}
		env := &SpecEnv{ex: ex, cur: s, old: fr.entry, vars: map[string]Value{}, results: results, fn: fr.fn}
		for i, p := range fr.fn.Params {
			env.vars[p.Name()] = args[i]
		}
		var cargs []Value
		// receiver of value-receiver codecs: zero struct
		np := len(callee.Params)
		if np == len(ch.Args)+1 {
			cargs = append(cargs, ex.zero(callee.Params[0].Type()))
		}
		for _, a := range ch.Args {
			cargs = append(cargs, env.eval(a))
		}
		s2 := s.clone()
		ch := ch
		ex.runInline(s2, callee, cargs, fr.entry, func(rs *State, res2 []Value) {
			env2 := &SpecEnv{ex: ex, cur: rs, old: fr.entry, vars: map[string]Value{}, results: results, fn: fr.fn}
			for i, p := range fr.fn.Params {
				env2.vars[p.Name()] = args[i]
			}
			for i, r := range res2 {
				env2.vars[fmt.Sprintf("then%d", i)] = r
			}
			if len(res2) == 1 {
				env2.vars["then"] = res2[0]
			}
			g := env2.evalProve(ch.Expr)
			ex.emit(rs, "chain", fmt.Sprintf("%s/%s/%s", ex.layer, ex.fnName, ch.Label), g, fr.fn.Pos(), ch.Src)
		})
	}
}

// rels: relational obligations over two independent runs (a, b) of the function.
func (ex *Exec) rels(fr *Frame, s *State, args []Value, results []Value) {
	if len(ex.contract.Rels) == 0 || ex.inRel {
		return
	}
	ex.inRel = true
	defer func() { ex.inRel = false }()
	mk := func(args, results []Value) StructV {
		sv := StructV{Fields: map[string]Value{}}
		for i, p := range fr.fn.Params {
			sv.Names = append(sv.Names, p.Name())
			sv.Fields[p.Name()] = args[i]
		}
		for i, r := range results {
			n := fmt.Sprintf("result%d", i)
			sv.Names = append(sv.Names, n)
			sv.Fields[n] = r
		}
		if len(results) == 1 {
			sv.Fields["result"] = results[0]
		}
		return sv
	}
	a := mk(args, results)
	s2 := s.clone()
	var args2 []Value
	for _, p := range fr.fn.Params {
		args2 = append(args2, ex.symbolicParam(s2, "b."+p.Name(), p.Type()))
	}
	// the second run must satisfy the precondition as well
	env0 := &SpecEnv{ex: ex, cur: s2, old: s2, vars: map[string]Value{}}
	for i, p := range fr.fn.Params {
		env0.vars[p.Name()] = args2[i]
	}
	for _, r := range ex.contract.Requires {
		s2.assume(env0.evalAssume(r.Expr))
	}
	ex.runInline(s2, fr.fn, args2, fr.entry, func(rs *State, res2 []Value) {
		b := mk(args2, res2)
		env := &SpecEnv{ex: ex, cur: rs, old: fr.entry, vars: map[string]Value{"a": a, "b": b}, fn: fr.fn}
		for _, r := range ex.contract.Rels {
			g := env.evalProve(r.Expr)
			ex.emit(rs, "rel", fmt.Sprintf("%s/%s/%s", ex.layer, ex.fnName, r.Label), g, fr.fn.Pos(), r.Src)
		}
	})
}

func (ex *Exec) checkPost(fr *Frame, s *State, results []Value, retIdx int) {
	if ex.contract == nil {
		return
	}
	env := &SpecEnv{ex: ex, cur: s, old: fr.entry, vars: map[string]Value{}, results: results, fn: fr.fn, fr: fr}
	// name suffix: which return statement (ordinal in source order) and the declared path keys
	suffix := ""
	if len(ex.contract.PathKeys) > 0 {
		suffix = fmt.Sprintf("@ret#%d", ex.returnOrdinal(fr))
		for _, pk := range ex.contract.PathKeys {
			if pk.Src == "ret" {
				continue // return ordinal only
			}
			func() {
				defer func() { recover() }()
				if c, ok := env.evalInt(pk.Expr).IntConst(); ok {
					suffix += fmt.Sprintf("/%s=%s", pk.Src, c.String())
				}
			}()
		}
	}
	for i, e := range ex.contract.Ensures {
		label := e.Label
		if label == "" {
			label = fmt.Sprintf("ensures#%d", i+1)
		}
		g := env.evalProve(e.Expr)
		ex.emit(s, "ensures", fmt.Sprintf("%s/%s/%s%s", ex.layer, ex.fnName, label, suffix), g, fr.fn.Pos(), fmt.Sprintf("return path %d: %s", retIdx, e.Src))
	}
	for i, e := range ex.contract.ClosureInv {
		g := env.evalProve(e.Expr)
		ex.emit(s, "ensures", fmt.Sprintf("%s/%s/closure_inv#%d%s", ex.layer, ex.fnName, i+1, suffix), g, fr.fn.Pos(), fmt.Sprintf("return path %d: %s", retIdx, e.Src))
	}
	if _, noalloc := ex.contract.Opts["noalloc"]; noalloc {
		before := fr.entry.H(ex, "alloc", ArrSort(SRef, SBool))
		after := s.H(ex, "alloc", ArrSort(SRef, SBool))
		ex.emit(s, "ensures", fmt.Sprintf("%s/%s/noalloc", ex.layer, ex.fnName), Eq(before, after), fr.fn.Pos(), "the function allocates nothing")
	}
	if ex.contract.HasAssigns {
		// frame: heap arrays outside the assigns clause are unchanged
		allowed := map[string]bool{}
		for _, a := range ex.contract.Assigns {
			allowed[ex.canonHeap(a)] = true
			if strings.HasPrefix(a, "*") {
				for i, p := range fr.fn.Params {
					if p.Name() == a[1:] {
						if pv, ok := fr.args[i].(PtrV); ok && pv.Kind == PField {
							allowed[pv.Field] = true
						}
					}
				}
			}
		}
		var names []string
		for n := range s.heap {
			names = append(names, n)
		}
		sort.Strings(names)
		for _, n := range names {
			if allowed[n] || n == "alloc" || n == "atype" || n == "blen" || coveredBy(allowed, n) {
				continue
			}
			before, ok := fr.entry.heap[n]
			if !ok {
				before = ex.heapInit(n, ex.heapSorts[n])
			}
			after := s.heap[n]
			if before.S == after.S {
				continue
			}
			// new objects may be written freely: compare on objects allocated at entry
			g := ex.frameEq(fr.entry, n, before, after)
			ex.emit(s, "assigns", fmt.Sprintf("%s/%s/assigns/%s", ex.layer, ex.fnName, n), g, fr.fn.Pos(), "heap array "+n+" unchanged on pre-existing objects")
		}
	}
}

// frameEq: forall r allocated at entry: before[r] == after[r]
func (ex *Exec) frameEq(entry *State, name string, before, after Term) Term {
	al := entry.H(ex, "alloc", ArrSort(SRef, SBool))
	r := Term{"fr!r", SRef}
	body := Implies(Select(al, r), Eq(Select(before, r), Select(after, r)))
	return Term{"(forall ((fr!r Ref)) " + body.S + ")", SBool}
}

// symbolicParam creates the symbolic value of a parameter.
func (ex *Exec) symbolicParam(s *State, name string, typ types.Type) Value {
	return ex.fresh(s, "p."+name, typ)
}

// fresh creates an unconstrained (but type-respecting) value of Go type typ.
func (ex *Exec) fresh(s *State, hint string, typ types.Type) Value {
	if tp, ok := types.Unalias(typ).(*types.TypeParam); ok {
		if bt := ex.bindings[tp.Obj().Name()]; bt != nil {
			return ex.fresh(s, hint, bt)
		}
		return OpaqueV{T: ex.st.Fresh(hint, ex.scalarSort(typ)), Typ: typ}
	}
	if w, sg, ok := intInfo(typ); ok {
		v := IntV{T: ex.st.Fresh(hint, ex.intSort(typ)), W: w, Signed: sg}
		ex.assumeRange(s, v)
		return v
	}
	if w, ok := floatWidth(typ); ok {
		return FloatV{Bits: ex.st.Fresh(hint, BVSort(w)), W: w}
	}
	switch u := typ.Underlying().(type) {
	case *types.Basic:
		switch {
		case u.Kind() == types.Bool:
			return BoolV{T: ex.st.Fresh(hint, SBool)}
		case u.Kind() == types.UnsafePointer:
			r := ex.st.Fresh(hint, SRef)
			ex.assumeAllocated(s, r)
			return RefV{T: r}
		case u.Kind() == types.String:
			return ex.freshSlice(s, hint, types.Typ[types.Uint8], true)
		}
	case *types.Pointer:
		if isNodeRef(u.Elem()) {
			obj := ex.st.Fresh(hint+".obj", SRef)
			idx := ex.st.Fresh(hint+".idx", SInt)
			if ex.nullableResults {
				// the result of a callee under contract: nil unless its contract says otherwise
				al := s.H(ex, "alloc", ArrSort(SRef, SBool))
				s.assume(Or(Eq(obj, Null), Select(al, obj)))
			} else {
				s.assume(Not(Eq(obj, Null)))
				ex.assumeAllocated(s, obj)
			}
			return PtrV{Kind: PSlot, Obj: obj, Idx: idx, Elem: u.Elem()}
		}
		if isStruct(u.Elem()) {
			r := ex.st.Fresh(hint, SRef)
			ex.assumeAllocated(s, r)
			return RefV{T: r, Typ: u.Elem()}
		}
		if _, _, ok := intInfo(u.Elem()); ok {
			// pointer to a scalar: abstract cell in the heap array "cell.<type>"
			r := ex.st.Fresh(hint, SRef)
			s.assume(Not(Eq(r, Null)))
			return PtrV{Kind: PField, Obj: r, Field: "cell." + sanitize(u.Elem().String()), Elem: u.Elem()}
		}
		if at, ok := u.Elem().Underlying().(*types.Array); ok && isByteType(at.Elem()) {
			r := ex.st.Fresh(hint, SRef)
			s.assume(Not(Eq(r, Null)))
			base := ex.st.Fresh(hint+".base", SInt)
			s.assume(ICmp("<=", IntC(0), base))
			return PtrV{Kind: PByteArr, Obj: r, Idx: base, N: int(at.Len()), Elem: u.Elem()}
		}
	case *types.Struct:
		if isNodeRef(typ) {
			p := ex.st.Fresh(hint+".pointer", SRef)
			ex.assumeAllocated(s, p)
			tg := IntV{T: ex.st.Fresh(hint+".tag", ex.byteSort()), W: 8}
			ex.assumeRange(s, tg)
			return ex.mkNodeRef(RefV{T: p}, tg)
		}
		sv := StructV{Typ: typ, Fields: map[string]Value{}}
		for i := 0; i < u.NumFields(); i++ {
			f := u.Field(i)
			sv.Names = append(sv.Names, f.Name())
			sv.Fields[f.Name()] = ex.fresh(s, hint+"."+f.Name(), f.Type())
		}
		return sv
	case *types.Slice:
		if isNodeRef(u.Elem()) {
			return SliceV{Kind: SlSeq, Elem: u.Elem(), SeqP: ex.st.Fresh(hint+".p", ArrSort(SInt, SRef)), SeqT: ex.st.Fresh(hint+".t", ArrSort(SInt, ex.byteSort())), Len: ex.freshLen(s, hint+".len"), Cap: IntC(0)}
		}
		if _, _, ok := intInfo(u.Elem()); ok && !isByteType(u.Elem()) {
			return SliceV{Kind: SlSeq, Elem: u.Elem(), SeqT: ex.st.Fresh(hint+".v", ArrSort(SInt, SInt)), Len: ex.freshLen(s, hint+".len"), Cap: IntC(0)}
		}
		return ex.freshSlice(s, hint, u.Elem(), false)
	case *types.Array:
		av := ArrV{Elem: u.Elem()}
		for i := 0; i < int(u.Len()); i++ {
			av.Elems = append(av.Elems, ex.fresh(s, fmt.Sprintf("%s.%d", hint, i), u.Elem()))
		}
		return av
	case *types.Signature:
		return FuncV{Name: hint}
	case *types.Interface:
		return IfaceV{T: ex.st.Fresh(hint, SRef)}
	}
	ex.unsupported("fresh value of type %s", typ)
	return nil
}

func (ex *Exec) freshLen(s *State, hint string) Term {
	l := ex.st.Fresh(hint, SInt)
	s.assume(ICmp("<=", IntC(0), l))
	s.assume(ICmp("<", l, IntBig(new(big.Int).Lsh(bigOne, 31)))) // assumption: lengths < 2^31 (documented)
	return l
}

func (ex *Exec) freshSlice(s *State, hint string, elem types.Type, isStr bool) Value {
	if !isByteType(elem) {
		ex.unsupported("slice of %s", elem)
	}
	obj := ex.st.Fresh(hint+".obj", SRef)
	off := ex.st.Fresh(hint+".off", SInt)
	ln := ex.freshLen(s, hint+".len")
	cp := ex.st.Fresh(hint+".cap", SInt)
	s.assume(ICmp("<=", IntC(0), off))
	s.assume(ICmp("<=", ln, cp))
	s.assume(ICmp("<", cp, IntBig(new(big.Int).Lsh(bigOne, 31))))
	ex.assumeAllocated(s, obj)
	bl := s.H(ex, "blen", ArrSort(SRef, SInt))
	// extent: the window [off, off+cap) lies inside the backing object; a nil slice has obj==null and cap==0
	s.assume(Or(Eq(obj, Null), ICmp("<=", IAdd(off, cp), Select(bl, obj))))
	s.assume(Implies(Eq(obj, Null), And(Eq(cp, IntC(0)), Eq(off, IntC(0)))))
	// a byte slice handed in by the caller points into a byte object (ghost allocation type)
	s.assume(Or(Eq(obj, Null), Eq(atypeOf(ex.st, obj), IntC(bytesTypeID))))
	if isStr {
		cp = ln
	}
	return SliceV{Kind: SlBytes, Obj: obj, Off: off, Len: ln, Cap: cp, IsStr: isStr, Elem: elem}
}

// ---------------------------------------------------------------------------
// block execution

func (ex *Exec) runBlock(s *State, fr *Frame, b *ssa.BasicBlock, from int) {
	if s.dead {
		return
	}
	if fr.top {
		if ex.visited == nil {
			ex.visited = map[*ssa.BasicBlock]bool{}
		}
		ex.visited[b] = true
	}
	ex.paths++
	if ex.paths > ex.maxPaths {
		ex.unsupported("path explosion in %s (> %d block visits)", fr.fn.Name(), ex.maxPaths)
	}
	// loop head?
	if from == 0 {
		li := ex.prog.LoopsOf(fr.fn)
		if l := li.ByHead[b]; l != nil {
			if ex.atLoopHead(s, fr, b, l) {
				return
			}
		}
	}
	for i := from; i < len(b.Instrs); i++ {
		in := b.Instrs[i]
		switch x := in.(type) {
		case *ssa.If:
			c := ex.val(fr, x.Cond).(BoolV).T
			if !c.IsTrue() && !c.IsFalse() && ex.tryIfConvert(s, fr, b, c) {
				return
			}
			if c.IsTrue() {
				ex.jump(s, fr, b, b.Succs[0])
			} else if c.IsFalse() {
				ex.jump(s, fr, b, b.Succs[1])
			} else {
				s2 := s.clone()
				s.assume(c)
				s.trace = append(s.trace, "T")
				ex.jump(s, fr.fork(), b, b.Succs[0])
				s2.assume(Not(c))
				s2.trace = append(s2.trace, "F")
				ex.jump(s2, fr.fork(), b, b.Succs[1])
			}
			return
		case *ssa.Jump:
			ex.jump(s, fr, b, b.Succs[0])
			return
		case *ssa.Return:
			var rs []Value
			for _, r := range x.Results {
				rs = append(rs, ex.val(fr, r))
			}
			if fr.top {
				ex.lastRet = x
			}
			fr.ret(s, rs)
			return
		case *ssa.Panic:
			// explicit panic: must be unreachable
			ex.emit(s, "safety", ex.obName(fr, "panic", x), False, x.Pos(), "explicit panic reachable")
			return
		case *ssa.Call:
			if fr.top && ex.contract != nil && len(ex.contract.GhostAt) > 0 {
				// ghost assignments anchored at this statement (evaluated in the state before the call)
				a := ex.anchor(x.Pos())
				for _, g := range ex.contract.GhostAt {
					if strings.Contains(a, g.Anchor) {
						env := &SpecEnv{ex: ex, cur: s, old: fr.entry, vars: map[string]Value{}, fn: fr.fn, fr: fr}
						s.ghost[g.Name] = env.eval(g.Expr)
					}
				}
			}
			// calls may fork; continue in continuation
			idx := i
			ex.call(s, fr, x, func(s2 *State, fr2 *Frame, v Value) {
				if v != nil {
					fr2.env[x] = v
				}
				ex.runBlock(s2, fr2, b, idx+1)
			})
			return
		default:
			ex.instr(s, fr, in)
			if s.dead {
				return
			}
		}
	}
}

// fork copies the frame environment for an independent path.
func (fr *Frame) fork() *Frame {
	n := *fr
	n.env = make(map[ssa.Value]Value, len(fr.env))
	for k, v := range fr.env {
		n.env[k] = v
	}
	return &n
}

func (ex *Exec) jump(s *State, fr *Frame, from, to *ssa.BasicBlock) {
	// leaving a loop through its condition (edge from the loop head to a block outside the loop)
	if l := ex.prog.LoopsOf(fr.fn).ByHead[from]; l != nil && !l.Blocks[to] && !s.dead {
		if spec := ex.loopSpecFor(fr, from); spec != nil && len(spec.ExitEnsures) > 0 {
			fnName := normName(fr.fn.RelString(ex.prog.SSA.Pkg))
			// a bottom-tested loop is left from its latch: the loop variables have their
			// next-iteration values (the back-edge operands of the head's phis)
			for pi, p := range from.Preds {
				if p != from {
					continue
				}
				saved := s.names
				s.names = make(map[string]Value, len(saved))
				for k, v := range saved {
					s.names[k] = v
				}
				var ctl Value
				for _, in := range from.Instrs {
					phi, ok := in.(*ssa.Phi)
					if !ok {
						break
					}
					v := ex.val(fr, phi.Edges[pi])
					if phi.Comment != "" {
						s.names[phi.Comment] = v
					}
					if alias := loopAlias(l, spec); alias == phi {
						ctl = v
					}
				}
				if ctl != nil && spec.Var != "" {
					s.names[spec.Var] = ctl
				}
				defer func() { s.names = saved }()
			}
			env := &SpecEnv{ex: ex, cur: s, old: ex.entryOf(fr), vars: map[string]Value{}, fn: fr.fn, fr: fr}
			for i, c := range spec.ExitEnsures {
				label := c.Label
				if label == "" {
					label = fmt.Sprintf("exit#%d", i+1)
				}
				ex.emit(s, "invariant", fmt.Sprintf("%s/%s/loop%d/%s/exit", ex.layer, fnName, l.Ordinal, label), env.evalProve(c.Expr), l.Pos, c.Src)
			}
		}
	}
	// leaving a loop from any other block (a second condition of a compound guard, a break): the
	// exit clauses are owed on every edge out of the loop, not only on the head's. Edges into a
	// block that only panics are exempt.
	if !s.dead {
		for _, l := range ex.prog.LoopsOf(fr.fn).Loops {
			if l.Head == from || !l.Blocks[from] || l.Blocks[to] || panicsOnly(to) {
				continue
			}
			spec := ex.loopSpecFor(fr, l.Head)
			if spec == nil || len(spec.ExitEnsures) == 0 {
				continue
			}
			fnName := normName(fr.fn.RelString(ex.prog.SSA.Pkg))
			env := &SpecEnv{ex: ex, cur: s, old: ex.entryOf(fr), vars: map[string]Value{}, fn: fr.fn, fr: fr}
			pos := l.Pos
			if len(from.Instrs) > 0 && from.Instrs[len(from.Instrs)-1].Pos().IsValid() {
				pos = from.Instrs[len(from.Instrs)-1].Pos()
			}
			for i, c := range spec.ExitEnsures {
				label := c.Label
				if label == "" {
					label = fmt.Sprintf("exit#%d", i+1)
				}
				ex.emit(s, "invariant", fmt.Sprintf("%s/%s/loop%d/%s/exit_from(b%d->b%d)", ex.layer, fnName, l.Ordinal, label, from.Index, to.Index), env.evalProve(c.Expr), pos, c.Src)
			}
		}
	}
	fr.prev = from
	ex.runBlock(s, fr, to, 0)
}

// panicsOnly: the block ends in a panic (a compiler-inserted or explicit abort, not a way out of
// the loop that a caller observes as a normal result).
func panicsOnly(b *ssa.BasicBlock) bool {
	if len(b.Instrs) == 0 {
		return false
	}
	_, ok := b.Instrs[len(b.Instrs)-1].(*ssa.Panic)
	return ok
}

// obName names a safety obligation by function, kind and the source text of the
// line it stems from (stable under edits elsewhere in the file, unlike line numbers).
func (ex *Exec) obName(fr *Frame, what string, in ssa.Instruction) string {
	return fmt.Sprintf("safety/%s/%s@%s", normName(fr.fn.RelString(ex.prog.SSA.Pkg)), what, ex.anchor(in.Pos()))
}

// ---------------------------------------------------------------------------
// loops

// atLoopHead handles invariant cut / unrolling. Returns true if the path ends here.
func (ex *Exec) atLoopHead(s *State, fr *Frame, b *ssa.BasicBlock, l *Loop) bool {
	var spec *LoopSpec
	c := ex.prog.CF.Contracts[normName(fr.fn.RelString(ex.prog.SSA.Pkg))]
	if c == nil && fr.fn.Origin() != nil {
		c = ex.prog.CF.Contracts[normName(fr.fn.Origin().RelString(ex.prog.SSA.Pkg))]
	}
	if c == nil && fr.top {
		c = ex.contract
	}
	if c != nil {
		spec = ex.matchLoop(fr.fn, c, l)
	}
	fnName := normName(fr.fn.RelString(ex.prog.SSA.Pkg))
	if spec == nil {
		ex.unsupported("loop %d of %s (at %s) has no invariant/unroll annotation", l.Ordinal, fnName, ex.prog.Pos(l.Pos))
	}
	fromBack := fr.prev != nil && l.Blocks[fr.prev]
	if spec.Unroll > 0 {
		s.visits[b]++
		if s.visits[b] > spec.Unroll+1 {
			ex.emit(s, "safety", fmt.Sprintf("safety/%s/loop%d/unroll_bound", fnName, l.Ordinal), False, l.Pos, "loop iterates more than the declared unroll bound")
			return true
		}
		return false
	}
	// bottom-tested loops (range-over-int, do-while shapes): every edge into the head is the true
	// branch of the same comparison between the incoming value of a head phi and a loop-invariant
	// bound, so that comparison holds at the head. It is added as an invariant of its own (proved
	// at entry and preservation from the edge's branch condition, assumed at the head).
	gPhi, gOp, gBound := bottomTestedGuard(b, l)
	autoGuard := func(st *State) (Term, bool) {
		if gPhi == nil {
			return Term{}, false
		}
		bv, ok := ex.binop(st, fr, gOp, fr.env[gPhi], ex.val(fr, gBound), types.Typ[types.Bool], gPhi.Type(), gPhi).(BoolV)
		if !ok {
			return Term{}, false
		}
		return bv.T, true
	}
	// bind phi values for this edge so invariants can talk about the loop variables
	evalInv := func(st *State, phase string) {
		if g, ok := autoGuard(st); ok {
			ex.emit(st, "invariant", fmt.Sprintf("%s/%s/loop%d/auto_guard/%s", ex.layer, fnName, l.Ordinal, phase), g, l.Pos, "loop guard of a bottom-tested loop holds at its head")
		}
		env := &SpecEnv{ex: ex, cur: st, old: ex.entryOf(fr), vars: map[string]Value{}, fn: fr.fn, fr: fr}
		for i, inv := range spec.Invariants {
			label := inv.Label
			if label == "" {
				label = fmt.Sprintf("inv#%d", i+1)
			}
			g := env.evalProve(inv.Expr)
			ex.emit(st, "invariant", fmt.Sprintf("%s/%s/loop%d/%s/%s", ex.layer, fnName, l.Ordinal, label, phase), g, l.Pos, inv.Src)
		}
	}
	// compute phi values along this edge and bind names
	predIdx := -1
	for i, p := range b.Preds {
		if p == fr.prev {
			predIdx = i
		}
	}
	bindPhis := func(st *State, havoc bool) {
		vals := map[*ssa.Phi]Value{}
		for _, in := range b.Instrs {
			phi, ok := in.(*ssa.Phi)
			if !ok {
				break
			}
			if havoc {
				vals[phi] = ex.fresh(st, "loop."+phi.Comment, phi.Type())
			} else {
				vals[phi] = ex.val(fr, phi.Edges[predIdx])
			}
		}
		for phi, v := range vals {
			fr.env[phi] = v
			if phi.Comment != "" {
				st.names[phi.Comment] = v
			}
		}
		if alias := loopAlias(l, spec); alias != nil {
			st.names[spec.Var] = vals[alias]
		}
	}
	if fromBack {
		headNames := map[string]Value{}
		hp := fmt.Sprintf("@head.%s.%d.", fnName, l.Ordinal)
		for k, v := range s.ghost {
			if strings.HasPrefix(k, hp) {
				headNames[k[len(hp):]] = v
			}
		}
		bindPhis(s, false)
		evalInv(s, "preserved")
		if len(spec.StepEnsures) > 0 {
			env := &SpecEnv{ex: ex, cur: s, old: ex.entryOf(fr), vars: map[string]Value{}, fn: fr.fn, fr: fr, prevNames: headNames}
			for i, c := range spec.StepEnsures {
				label := c.Label
				if label == "" {
					label = fmt.Sprintf("step#%d", i+1)
				}
				ex.emit(s, "invariant", fmt.Sprintf("%s/%s/loop%d/%s/step", ex.layer, fnName, l.Ordinal, label), env.evalProve(c.Expr), l.Pos, c.Src)
			}
		}
		if spec.Decreases != nil {
			env := &SpecEnv{ex: ex, cur: s, old: ex.entryOf(fr), vars: map[string]Value{}, fn: fr.fn, fr: fr}
			now := env.evalInt(spec.Decreases.Expr)
			if prev, ok := s.ghost[fmt.Sprintf("decr.%s.%d", fnName, l.Ordinal)]; ok {
				pv := prev.(IntV).T
				ex.emit(s, "decreases", fmt.Sprintf("%s/%s/loop%d/decreases", ex.layer, fnName, l.Ordinal), And(ICmp("<", now, pv), ICmp("<=", IntC(0), pv)), l.Pos, spec.Decreases.Src)
			}
		}
		return true
	}
	// entering the loop
	bindPhis(s, false)
	if len(spec.Ghosts) > 0 {
		genv := &SpecEnv{ex: ex, cur: s, old: ex.entryOf(fr), vars: map[string]Value{}, fn: fr.fn, fr: fr}
		for _, g := range spec.Ghosts {
			s.ghost[g.Label] = genv.eval(g.Expr)
		}
	}
	evalInv(s, "entry")
	// havoc
	mods := ex.loopMods(fr.fn, l, spec)
	for _, h := range mods.heaps {
		sortS := ex.heapSorts[h]
		if sortS == "" {
			continue // never touched so far: initial symbol will be created on demand; havoc by renaming below
		}
		s.setH(h, ex.st.Fresh("H."+h+".loop", sortS))
	}
	for cell := range mods.cells {
		if old, ok := s.cells[cell]; ok {
			s.cells[cell] = ex.havocLike(s, old, fmt.Sprintf("loop.cell%d", cell))
		}
	}
	bindPhis(s, true)
	// re-bind names of havocked cells
	for name, cell := range ex.cellNames(fr) {
		if v, ok := s.cells[cell]; ok {
			s.names[name] = v
		}
	}
	env := &SpecEnv{ex: ex, cur: s, old: ex.entryOf(fr), vars: map[string]Value{}, fn: fr.fn, fr: fr}
	if g, ok := autoGuard(s); ok {
		s.assume(g)
	}
	for _, inv := range spec.Invariants {
		s.assume(env.evalAssume(inv.Expr))
	}
	if spec.Decreases != nil {
		d := env.evalInt(spec.Decreases.Expr)
		s.ghost[fmt.Sprintf("decr.%s.%d", fnName, l.Ordinal)] = IntV{T: d, W: 64, Signed: true}
	}
	if len(spec.StepEnsures) > 0 {
		// remember the values the loop variables have at the head of this (arbitrary) iteration
		hp := fmt.Sprintf("@head.%s.%d.", fnName, l.Ordinal)
		for k, v := range s.names {
			s.ghost[hp+k] = v
		}
	}
	s.visits[b] = 0
	return false
}

func (ex *Exec) entryOf(fr *Frame) *State {
	if fr.entry != nil {
		return fr.entry
	}
	return nil
}

type loopMods struct {
	heaps []string
	cells map[int]bool
}

// loopMods: which heap arrays / cells may be written inside the loop.
// Declared with "modifies"; absent a declaration the loop must be store-free
// (checked here), otherwise every heap array touched so far is havocked.
func (ex *Exec) loopMods(fn *ssa.Function, l *Loop, spec *LoopSpec) loopMods {
	m := loopMods{cells: map[int]bool{}}
	hasStore := false
	for b := range l.Blocks {
		for _, in := range b.Instrs {
			switch x := in.(type) {
			case *ssa.Store:
				// stores into local cells (address-taken locals) do not touch the heap
				root := ex.cellOfAddr(x.Addr)
				if a, ok := root.(*ssa.Alloc); ok && ex.isCellAlloc(a) {
					continue
				}
				if _, ok := root.(*ssa.FreeVar); ok {
					continue
				}
				hasStore = true
			case *ssa.Call:
				if !ex.pureCall(x) {
					hasStore = true
				}
			}
		}
	}
	if len(spec.Modifies) > 0 {
		for _, h := range spec.Modifies {
			if h == "cells" {
				continue
			}
			m.heaps = append(m.heaps, ex.canonHeap(h))
		}
	} else if hasStore {
		for h := range ex.heapSorts {
			m.heaps = append(m.heaps, h)
		}
		sort.Strings(m.heaps)
	}
	// cells: any Alloc whose address is stored to inside the loop
	for b := range l.Blocks {
		for _, in := range b.Instrs {
			if st, ok := in.(*ssa.Store); ok {
				if c := ex.cellOfAddr(st.Addr); c != nil {
					m.cells[ex.allocCell(c)] = true
				}
			}
		}
	}
	return m
}

// cellOfAddr finds the Alloc/FreeVar an address expression is rooted in.
func (ex *Exec) cellOfAddr(v ssa.Value) ssa.Value {
	for {
		switch x := v.(type) {
		case *ssa.Alloc:
			return x
		case *ssa.FreeVar:
			return x
		case *ssa.FieldAddr:
			v = x.X
		case *ssa.IndexAddr:
			v = x.X
		default:
			return nil
		}
	}
}

var allocCells = map[ssa.Value]int{}

func (ex *Exec) allocCell(a ssa.Value) int {
	return allocCells[a]
}

func (ex *Exec) cellNames(fr *Frame) map[string]int {
	out := map[string]int{}
	for v, val := range fr.env {
		if p, ok := val.(PtrV); ok && p.Kind == PCell {
			switch a := v.(type) {
			case *ssa.Alloc:
				if a.Comment != "" {
					out[a.Comment] = p.Cell
				}
			case *ssa.FreeVar:
				out[a.Name()] = p.Cell
			}
		}
	}
	return out
}

func (ex *Exec) havocLike(s *State, old Value, hint string) Value {
	switch x := old.(type) {
	case IntV:
		v := IntV{T: ex.st.Fresh(hint, x.T.Sort), W: x.W, Signed: x.Signed}
		ex.assumeRange(s, v)
		return v
	case BoolV:
		return BoolV{T: ex.st.Fresh(hint, SBool)}
	case RefV:
		r := ex.st.Fresh(hint, SRef)
		ex.assumeAllocated(s, r)
		return RefV{T: r, Typ: x.Typ}
	case StructV:
		return ex.fresh(s, hint, x.Typ)
	case SliceV:
		if x.Kind == SlSeq {
			n := x
			if x.SeqP.S != "" {
				n.SeqP = ex.st.Fresh(hint+".p", x.SeqP.Sort)
			}
			n.SeqT = ex.st.Fresh(hint+".t", x.SeqT.Sort)
			n.Len = ex.freshLen(s, hint+".len")
			return n
		}
		return ex.freshSlice(s, hint, x.Elem, x.IsStr)
	case OpaqueV:
		return OpaqueV{T: ex.st.Fresh(hint, x.T.Sort), Typ: x.Typ}
	case FloatV:
		return FloatV{Bits: ex.st.Fresh(hint, x.Bits.Sort), W: x.W}
	case NilV:
		return x
	}
	ex.unsupported("havoc of %s", describe(old))
	return nil
}

func (ex *Exec) pureCall(c *ssa.Call) bool {
	// callbacks handed in by the caller (yield, restore, predicate): assumed not to modify the
	// tree ("with the tree unchanged" in the statement of the sequence properties)
	if !c.Call.IsInvoke() && c.Call.StaticCallee() == nil {
		if _, isB := c.Call.Value.(*ssa.Builtin); !isB {
			switch v := c.Call.Value.(type) {
			case *ssa.Parameter:
				return true
			case *ssa.UnOp:
				if _, isFV := v.X.(*ssa.FreeVar); isFV {
					return true
				}
			case *ssa.FreeVar:
				return true
			}
		}
	}
	if b, ok := c.Call.Value.(*ssa.Builtin); ok {
		switch b.Name() {
		case "len", "cap", "min", "max", "append", "Slice", "SliceData", "ssa:wrapnilchk":
			return true
		}
		return false
	}
	if c.Call.IsInvoke() {
		switch c.Call.Method.Name() {
		case "getKey", "getTransformKey": // accessors of the leaf type parameter
			return true
		}
		return false
	}
	if f := c.Call.StaticCallee(); f != nil {
		if ct, _ := ex.contractFor(f); ct != nil && ct.HasAssigns && len(ct.Assigns) == 0 {
			return true
		}
		switch f.String() {
		case "bytes.Equal", "bytes.Compare", "bytes.HasPrefix", "math/bits.TrailingZeros32", "math/bits.TrailingZeros", "strings.Compare":
			return true
		}
		// tiny accessors
		switch f.Name() {
		case "node", "getKey", "getTransformKey":
			return true
		}
	}
	return false
}

// ---------------------------------------------------------------------------
// values of SSA operands

func (ex *Exec) val(fr *Frame, v ssa.Value) Value {
	switch x := v.(type) {
	case *ssa.Const:
		return ex.constVal(x)
	case *ssa.Global:
		return PtrV{Kind: PGlobal, Field: x.Name(), Elem: x.Type().Underlying().(*types.Pointer).Elem()}
	case *ssa.Function:
		return FuncV{Fn: x}
	case *ssa.Builtin:
		return FuncV{Name: "builtin." + x.Name()}
	}
	if val, ok := fr.env[v]; ok {
		return val
	}
	ex.unsupported("value %s (%T) not bound in %s", v.Name(), v, fr.fn.Name())
	return nil
}

func (ex *Exec) constVal(c *ssa.Const) Value {
	t := c.Type()
	if tp, ok := types.Unalias(t).(*types.TypeParam); ok {
		if bt := ex.bindings[tp.Obj().Name()]; bt != nil {
			t = bt
		} else {
			if c.Value == nil || c.Value.ExactString() == "0" {
				// zero value of a type parameter: a distinguished constant
				return OpaqueV{T: ex.st.Const("zero."+tp.Obj().Name(), ex.scalarSort(t)), Typ: t}
			}
			ex.unsupported("constant of type parameter %s", t)
		}
	}
	if c.Value == nil {
		return ex.zero(t)
	}
	if w, sg, ok := intInfo(t); ok {
		n, _ := new(big.Int).SetString(c.Value.ExactString(), 10)
		if n == nil {
			// rune/other
			i64, _ := constant.Int64Val(constant.ToInt(c.Value))
			n = big.NewInt(i64)
		}
		return ex.intConst(n, w, sg)
	}
	if w, ok := floatWidth(t); ok {
		f, _ := constant.Float64Val(c.Value)
		return FloatV{Bits: floatBits(f, w), W: w}
	}
	if b, ok := t.Underlying().(*types.Basic); ok {
		switch {
		case b.Kind() == types.Bool || b.Kind() == types.UntypedBool:
			return BoolV{T: boolT(constant.BoolVal(c.Value))}
		case b.Info()&types.IsString != 0:
			return ex.stringConst(constant.StringVal(c.Value))
		}
	}
	ex.unsupported("constant %s of type %s", c, t)
	return nil
}

func (ex *Exec) intConst(n *big.Int, w int, signed bool) IntV {
	if ex.mode == ModeInt {
		return IntV{T: IntBig(n), W: w, Signed: signed}
	}
	return IntV{T: BVC(n, w), W: w, Signed: signed}
}

func (ex *Exec) stringConst(str string) Value {
	obj := ex.st.Const(fmt.Sprintf("str.%x", []byte(str)), SRef)
	return SliceV{Kind: SlBytes, Obj: obj, Off: IntC(0), Len: IntC(int64(len(str))), Cap: IntC(int64(len(str))), IsStr: true, Elem: types.Typ[types.Uint8]}
}

func (ex *Exec) zero(t types.Type) Value {
	if tp, ok := types.Unalias(t).(*types.TypeParam); ok {
		if bt := ex.bindings[tp.Obj().Name()]; bt != nil {
			return ex.zero(bt)
		}
		return OpaqueV{T: ex.st.Const("zero."+tp.Obj().Name(), ex.scalarSort(t)), Typ: t}
	}
	if w, sg, ok := intInfo(t); ok {
		return ex.intConst(big.NewInt(0), w, sg)
	}
	if w, ok := floatWidth(t); ok {
		return FloatV{Bits: BVCu(0, w), W: w}
	}
	switch u := t.Underlying().(type) {
	case *types.Basic:
		switch {
		case u.Kind() == types.Bool:
			return BoolV{T: False}
		case u.Kind() == types.UnsafePointer:
			return RefV{T: Null}
		case u.Kind() == types.String:
			return SliceV{Kind: SlBytes, Obj: Null, Off: IntC(0), Len: IntC(0), Cap: IntC(0), IsStr: true, Elem: types.Typ[types.Uint8]}
		}
	case *types.Pointer:
		return NilV{Typ: t}
	case *types.Struct:
		sv := StructV{Typ: t, Fields: map[string]Value{}}
		for i := 0; i < u.NumFields(); i++ {
			f := u.Field(i)
			sv.Names = append(sv.Names, f.Name())
			sv.Fields[f.Name()] = ex.zero(f.Type())
		}
		return sv
	case *types.Array:
		av := ArrV{Elem: u.Elem()}
		for i := 0; i < int(u.Len()); i++ {
			av.Elems = append(av.Elems, ex.zero(u.Elem()))
		}
		return av
	case *types.Slice:
		if isNodeRef(u.Elem()) {
			return SliceV{Kind: SlSeq, Elem: u.Elem(), SeqP: ex.st.Const("emptyseq.p", ArrSort(SInt, SRef)), SeqT: ex.st.Const("emptyseq.t."+sanitize(ex.byteSort()), ArrSort(SInt, ex.byteSort())), Len: IntC(0), Cap: IntC(0)}
		}
		if _, _, ok := intInfo(u.Elem()); ok && !isByteType(u.Elem()) {
			return SliceV{Kind: SlSeq, Elem: u.Elem(), SeqT: ex.st.Const("emptyseq.i", ArrSort(SInt, SInt)), Len: IntC(0), Cap: IntC(0)}
		}
		return SliceV{Kind: SlBytes, Obj: Null, Off: IntC(0), Len: IntC(0), Cap: IntC(0), Elem: u.Elem()}
	case *types.Interface:
		return IfaceV{Val: nil}
	case *types.Signature:
		return NilV{Typ: t}
	}
	ex.unsupported("zero value of %s", t)
	return nil
}

// pureBlock: only side-effect-free instructions followed by a jump.
func pureBlock(b *ssa.BasicBlock) bool {
	if len(b.Instrs) == 0 || len(b.Instrs) > 12 {
		return false
	}
	for i, in := range b.Instrs {
		if i == len(b.Instrs)-1 {
			_, ok := in.(*ssa.Jump)
			return ok
		}
		switch x := in.(type) {
		case *ssa.BinOp, *ssa.Convert, *ssa.ChangeType, *ssa.DebugRef, *ssa.Extract, *ssa.Field:
		case *ssa.UnOp:
			if x.Op == token.MUL {
				return false // loads may fault; keep them on real paths
			}
		default:
			return false
		}
	}
	return false
}

// tryIfConvert merges a side-effect-free triangle/diamond into ite-valued phis
// instead of forking the path (keeps unrolled loops linear).
func (ex *Exec) tryIfConvert(s *State, fr *Frame, b *ssa.BasicBlock, c Term) bool {
	T, F := b.Succs[0], b.Succs[1]
	var join *ssa.BasicBlock
	var sideT, sideF *ssa.BasicBlock
	switch {
	case len(T.Preds) == 1 && len(T.Succs) == 1 && T.Succs[0] == F && pureBlock(T):
		join, sideT = F, T
	case len(F.Preds) == 1 && len(F.Succs) == 1 && F.Succs[0] == T && pureBlock(F):
		join, sideF = T, F
	case len(T.Preds) == 1 && len(F.Preds) == 1 && len(T.Succs) == 1 && len(F.Succs) == 1 && T.Succs[0] == F.Succs[0] && pureBlock(T) && pureBlock(F):
		join, sideT, sideF = T.Succs[0], T, F
	default:
		return false
	}
	if ex.prog.LoopsOf(fr.fn).ByHead[join] != nil {
		return false
	}
	runSide := func(side *ssa.BasicBlock, cond Term) *Frame {
		if side == nil {
			return fr
		}
		st := s.clone()
		base := len(st.pc)
		st.assume(cond)
		f2 := fr.fork()
		f2.prev = b
		for _, in := range side.Instrs[:len(side.Instrs)-1] {
			ex.instr(st, f2, in)
		}
		// facts learnt on the side path (range assumptions, definitions of named terms) hold under cond
		for _, a := range st.pc[base+1:] {
			s.assume(Implies(cond, a))
		}
		return f2
	}
	fT := runSide(sideT, c)
	fF := runSide(sideF, Not(c))
	predT, predF := b, b
	if sideT != nil {
		predT = sideT
	}
	if sideF != nil {
		predF = sideF
	}
	idx := func(p *ssa.BasicBlock) int {
		for i, q := range join.Preds {
			if q == p {
				return i
			}
		}
		return -1
	}
	iT, iF := idx(predT), idx(predF)
	if iT < 0 || iF < 0 || len(join.Preds) != 2 {
		return false
	}
	vals := map[*ssa.Phi]Value{}
	n := 0
	for _, in := range join.Instrs {
		phi, ok := in.(*ssa.Phi)
		if !ok {
			break
		}
		n++
		vt := ex.val(fT, phi.Edges[iT])
		vf := ex.val(fF, phi.Edges[iF])
		switch vt.(type) {
		case IntV, BoolV, RefV:
		default:
			return false
		}
		vals[phi] = ex.nmValue(s, ex.iteValue(c, vt, vf))
	}
	for phi, v := range vals {
		fr.env[phi] = v
		if phi.Comment != "" {
			s.names[phi.Comment] = v
		}
	}
	fr.prev = predT
	ex.runBlock(s, fr, join, n)
	return true
}

// conjuncts flattens a top-level conjunction.
func conjuncts(t Term) []Term {
	if strings.HasPrefix(t.S, "(=> ") {
		// (=> g (and a b)) splits into (=> g a), (=> g b)
		args := splitArgs(t.S)
		if len(args) == 3 {
			inner := conjuncts(Term{args[2], SBool})
			if len(inner) > 1 {
				var out []Term
				for _, c := range inner {
					out = append(out, Implies(Term{args[1], SBool}, c))
				}
				return out
			}
		}
		return []Term{t}
	}
	if !strings.HasPrefix(t.S, "(and ") {
		return []Term{t}
	}
	args := splitArgs(t.S)
	var out []Term
	for _, a := range args[1:] {
		out = append(out, conjuncts(Term{a, SBool})...)
	}
	return out
}

// matchLoop finds the annotation of loop l: by controlling-variable name when the
// annotation gives one (robust against loops being added/removed), else by ordinal.
func (ex *Exec) matchLoop(fn *ssa.Function, c *Contract, l *Loop) *LoopSpec {
	li := ex.prog.LoopsOf(fn)
	hasVar := func(lp *Loop, v string) bool {
		for _, in := range lp.Head.Instrs {
			phi, ok := in.(*ssa.Phi)
			if !ok {
				break
			}
			if phi.Comment == v || (ex.renames[v] != "" && phi.Comment == ex.renames[v]) {
				return true
			}
		}
		return false
	}
	// named specs, in ordinal order, claim the first still-unclaimed loop that has the variable
	var ords []int
	for o := range c.Loops {
		ords = append(ords, o)
	}
	sort.Ints(ords)
	claimed := map[*Loop]*LoopSpec{}
	used := map[*LoopSpec]bool{}
	// first the loops that still sit at the annotation's ordinal and still have its variable
	// (an unrelated loop whose variable was renamed must not shift the others)
	for _, o := range ords {
		sp := c.Loops[o]
		if sp.Var == "" {
			continue
		}
		for _, lp := range li.Loops {
			if lp.Ordinal == o && claimed[lp] == nil && hasVar(lp, sp.Var) {
				claimed[lp] = sp
				used[sp] = true
			}
		}
	}
	for _, o := range ords {
		sp := c.Loops[o]
		if sp.Var == "" || used[sp] {
			continue
		}
		for _, lp := range li.Loops {
			if claimed[lp] == nil && hasVar(lp, sp.Var) {
				claimed[lp] = sp
				used[sp] = true
				break
			}
		}
	}
	if sp := claimed[l]; sp != nil {
		return sp
	}
	if sp := c.Loops[l.Ordinal]; sp != nil && (sp.Var == "" || !used[sp]) {
		// ordinal fallback (also for a named annotation whose variable was renamed: the
		// annotation's name is then bound to the loop's controlling variable, see loopAlias)
		return sp
	}
	return nil
}

// loopAlias: when an annotation names a variable that no longer exists, its name is bound
// to the phi that controls the loop (the phi operand of the loop condition).
var renamesOf map[string]string // renames of the function being executed (set by NewExec)

func loopAlias(l *Loop, sp *LoopSpec) *ssa.Phi {
	if sp.Var == "" {
		return nil
	}
	var phis []*ssa.Phi
	for _, in := range l.Head.Instrs {
		phi, ok := in.(*ssa.Phi)
		if !ok {
			break
		}
		if phi.Comment == sp.Var || (renamesOf[sp.Var] != "" && phi.Comment == renamesOf[sp.Var]) {
			return nil
		}
		phis = append(phis, phi)
	}
	// the loop condition is the If terminating the head block (possibly via a load/convert chain)
	if len(l.Head.Instrs) > 0 {
		if iff, ok := l.Head.Instrs[len(l.Head.Instrs)-1].(*ssa.If); ok {
			var find func(v ssa.Value, d int) *ssa.Phi
			find = func(v ssa.Value, d int) *ssa.Phi {
				if d > 4 {
					return nil
				}
				if p, ok := v.(*ssa.Phi); ok {
					for _, q := range phis {
						if q == p {
							return p
						}
					}
					return nil
				}
				if in, ok := v.(ssa.Instruction); ok {
					for _, op := range in.Operands(nil) {
						if *op != nil {
							if p := find(*op, d+1); p != nil {
								return p
							}
						}
					}
				}
				return nil
			}
			if p := find(iff.Cond, 0); p != nil {
				return p
			}
		}
	}
	if len(phis) > 0 {
		return phis[0]
	}
	return nil
}

// frameInfo: the array named by a havoc symbol agrees with 'old' on every object that was
// allocated (and non-null) when the havoc happened and is not among 'except'.
type frameInfo struct {
	old    Term
	except []string
	serial int  // allocation serial at the time of the havoc (objects with a lower serial existed)
	entry  bool // frame is relative to the function entry state
}

func (s *State) addFrame(sym string, fi *frameInfo) {
	n := make(map[string]*frameInfo, len(s.frames)+1)
	for k, v := range s.frames {
		n[k] = v
	}
	n[sym] = fi
	s.frames = n
}

// guardedFrame is a frame(...) call found in a clause, with the implies-guards above it.
type guardedFrame struct {
	guards []ast.Expr
	args   []ast.Expr
}

// collectFrames finds frame(...) calls under conjunctions and implies-consequents.
func collectFrames(x ast.Expr, guards []ast.Expr, out *[]guardedFrame) {
	switch n := x.(type) {
	case *ast.ParenExpr:
		collectFrames(n.X, guards, out)
	case *ast.BinaryExpr:
		if n.Op == token.LAND {
			collectFrames(n.X, guards, out)
			collectFrames(n.Y, guards, out)
		}
	case *ast.CallExpr:
		if id, ok := n.Fun.(*ast.Ident); ok {
			switch id.Name {
			case "frame":
				*out = append(*out, guardedFrame{guards: append([]ast.Expr{}, guards...), args: n.Args})
			case "implies":
				if len(n.Args) == 2 {
					collectFrames(n.Args[1], append(append([]ast.Expr{}, guards...), n.Args[0]), out)
				}
			}
		}
	}
}

// frameArgs finds frame(...) conjuncts of a clause and returns their argument expressions.
func frameArgs(x ast.Expr) ([]ast.Expr, bool) {
	switch n := x.(type) {
	case *ast.ParenExpr:
		return frameArgs(n.X)
	case *ast.BinaryExpr:
		if n.Op == token.LAND {
			if a, ok := frameArgs(n.X); ok {
				return a, true
			}
			return frameArgs(n.Y)
		}
	case *ast.CallExpr:
		if id, ok := n.Fun.(*ast.Ident); ok && id.Name == "frame" {
			return n.Args, true
		}
	}
	return nil, false
}

// lazyU is an assumed formula "forall o: Ref. body(o)" that is not handed to the solver as
// a quantifier but instantiated at the object terms the path actually touches (every
// dereferenced reference, every skolem constant of a forallref goal, explicit reveal()).
// Adding instances of an assumed universal is sound; which instances are added only
// affects completeness.
type lazyU struct {
	id    int
	name  string
	body  ast.Expr
	env   *SpecEnv
	guard Term
}

var lazyCounter int

func (s *State) instantiateAt(ex *Exec, t Term) {
	if t.Sort != SRef || t.S == "null" || len(s.lazy) == 0 {
		return
	}
	for _, lu := range s.lazy {
		key := fmt.Sprintf("%d|%s", lu.id, t.S)
		if s.lazyDone[key] {
			continue
		}
		nd := make(map[string]bool, len(s.lazyDone)+1)
		for k := range s.lazyDone {
			nd[k] = true
		}
		nd[key] = true
		s.lazyDone = nd
		env := *lu.env
		env.vars = make(map[string]Value, len(lu.env.vars)+1)
		for k, v := range lu.env.vars {
			env.vars[k] = v
		}
		env.vars[lu.name] = RefV{T: t}
		var side []Term
		c1, c2 := env.cur.collect, env.old.collect
		env.cur.collect, env.old.collect = &side, &side
		body := env.evalAssume(lu.body)
		env.cur.collect, env.old.collect = c1, c2
		s.assume(Implies(lu.guard, And(append(side, body)...)))
	}
}

// isCellAlloc: the Alloc is modelled as a local cell (not as a heap object).
func (ex *Exec) isCellAlloc(a *ssa.Alloc) bool {
	elem := ex.subst(a.Type().Underlying().(*types.Pointer).Elem())
	if isStruct(elem) && !isNodeRef(elem) && a.Heap && ex.isHeapStruct(elem) {
		return false
	}
	if at, ok := elem.Underlying().(*types.Array); ok && isByteType(at.Elem()) && a.Heap {
		return false
	}
	return true
}

// conjuncts1 splits one level of conjunction (or an implication over a conjunction).
func conjuncts1(t Term) []Term {
	if strings.HasPrefix(t.S, "(=> ") {
		args := splitArgs(t.S)
		if len(args) == 3 && strings.HasPrefix(args[2], "(and ") {
			var out []Term
			for _, c := range splitArgs(args[2])[1:] {
				out = append(out, Implies(Term{args[1], SBool}, Term{c, SBool}))
			}
			return out
		}
		return []Term{t}
	}
	if !strings.HasPrefix(t.S, "(and ") {
		return []Term{t}
	}
	var out []Term
	for _, a := range splitArgs(t.S)[1:] {
		out = append(out, Term{a, SBool})
	}
	return out
}

// returnOrdinal: 1-based index (in source order) of the Return instruction the frame is at.
func (ex *Exec) returnOrdinal(fr *Frame) int {
	if ex.lastRet == nil {
		return 0
	}
	var rets []*ssa.Return
	for _, b := range fr.fn.Blocks {
		for _, in := range b.Instrs {
			if r, ok := in.(*ssa.Return); ok {
				rets = append(rets, r)
			}
		}
	}
	sort.SliceStable(rets, func(i, j int) bool { return rets[i].Pos() < rets[j].Pos() })
	for i, r := range rets {
		if r == ex.lastRet {
			return i + 1
		}
	}
	return 0
}

// coveredBy: a slice- or string-typed field f is stored as the arrays f.obj, f.off, f.len,
// f.cap; naming f in an assigns / frameExcept list covers them.
func coveredBy(set map[string]bool, n string) bool {
	for i := len(n) - 1; i > 0; i-- {
		if n[i] == '.' && set[n[:i]] {
			switch n[i+1:] {
			case "obj", "off", "len", "cap":
				return true
			}
		}
	}
	return false
}

// orderedLocals: names of the variables a function declares (:=, var, range), in source order of
// their first declaration. Nested function literals are not entered.
func orderedLocals(fn *ssa.Function) []string {
	var body *ast.BlockStmt
	switch n := fn.Syntax().(type) {
	case *ast.FuncDecl:
		body = n.Body
	case *ast.FuncLit:
		body = n.Body
	}
	if o := fn.Origin(); body == nil && o != nil {
		switch n := o.Syntax().(type) {
		case *ast.FuncDecl:
			body = n.Body
		case *ast.FuncLit:
			body = n.Body
		}
	}
	if body == nil {
		return nil
	}
	var out []string
	seen := map[string]bool{}
	// receiver and parameters first (contracts name them too)
	for _, p := range fn.Params {
		if p.Name() != "_" && p.Name() != "" && !seen[p.Name()] {
			seen[p.Name()] = true
			out = append(out, p.Name())
		}
	}
	add := func(id *ast.Ident) {
		if id != nil && id.Name != "_" && !seen[id.Name] {
			seen[id.Name] = true
			out = append(out, id.Name)
		}
	}
	ast.Inspect(body, func(n ast.Node) bool {
		switch x := n.(type) {
		case *ast.FuncLit:
			return false
		case *ast.AssignStmt:
			if x.Tok == token.DEFINE {
				for _, l := range x.Lhs {
					if id, ok := l.(*ast.Ident); ok {
						add(id)
					}
				}
			}
		case *ast.RangeStmt:
			if x.Tok == token.DEFINE {
				if id, ok := x.Key.(*ast.Ident); ok {
					add(id)
				}
				if id, ok := x.Value.(*ast.Ident); ok {
					add(id)
				}
			}
		case *ast.ValueSpec:
			for _, id := range x.Names {
				add(id)
			}
		}
		return true
	})
	return out
}

// localRenames: if the function still declares as many locals as when its contract was written,
// a name that differs at the same position is a rename; contract text keeps working under the
// old name. Any other change of the list (added / removed locals) yields no mapping.
func localRenames(spec, cur []string) map[string]string {
	if len(spec) != len(cur) {
		return nil
	}
	curSet := map[string]bool{}
	for _, c := range cur {
		curSet[c] = true
	}
	m := map[string]string{}
	for i := range spec {
		if spec[i] != cur[i] && !curSet[spec[i]] {
			m[spec[i]] = cur[i]
		}
	}
	return m
}

// anchor: the source text an obligation is named after, with renamed locals written under the
// name the contract knows them by - a pure rename changes no obligation name.
func (ex *Exec) anchor(pos token.Pos) string {
	a := ex.prog.SrcAnchor(pos)
	for old, cur := range ex.renames {
		a = replaceWord(a, cur, old)
	}
	return a
}

func replaceWord(s, from, to string) string {
	if from == "" || !strings.Contains(s, from) {
		return s
	}
	isW := func(c byte) bool {
		return c == '_' || (c >= '0' && c <= '9') || (c >= 'a' && c <= 'z') || (c >= 'A' && c <= 'Z')
	}
	var b strings.Builder
	for i := 0; i < len(s); {
		if strings.HasPrefix(s[i:], from) && (i == 0 || !isW(s[i-1])) && (i+len(from) == len(s) || !isW(s[i+len(from)])) {
			b.WriteString(to)
			i += len(from)
			continue
		}
		b.WriteByte(s[i])
		i++
	}
	return b.String()
}

// bottomTestedGuard recognises loops whose head is entered only through true branches of one
// comparison "incoming value of a head phi  OP  loop-invariant bound" (go/ssa's lowering of
// range-over-int; do-while shapes).
func bottomTestedGuard(head *ssa.BasicBlock, l *Loop) (*ssa.Phi, token.Token, ssa.Value) {
	if len(head.Preds) < 2 {
		return nil, token.ILLEGAL, nil
	}
	var phis []*ssa.Phi
	for _, in := range head.Instrs {
		phi, ok := in.(*ssa.Phi)
		if !ok {
			break
		}
		phis = append(phis, phi)
	}
	for _, phi := range phis {
		var op token.Token
		var bound ssa.Value
		ok := true
		for pi, p := range head.Preds {
			if len(p.Instrs) == 0 {
				ok = false
				break
			}
			iff, isIf := p.Instrs[len(p.Instrs)-1].(*ssa.If)
			if !isIf || len(p.Succs) != 2 || p.Succs[0] != head || p.Succs[1] == head {
				ok = false
				break
			}
			cmp, isCmp := iff.Cond.(*ssa.BinOp)
			if !isCmp || !sameSSAValue(cmp.X, phi.Edges[pi]) {
				ok = false
				break
			}
			switch cmp.Op {
			case token.LSS, token.LEQ, token.GTR, token.GEQ, token.NEQ:
			default:
				ok = false
			}
			if !ok {
				break
			}
			if bound == nil {
				op, bound = cmp.Op, cmp.Y
			} else if op != cmp.Op || bound != cmp.Y {
				ok = false
				break
			}
		}
		if ok && bound != nil {
			// the bound must be defined outside the loop
			if in, isInstr := bound.(ssa.Instruction); isInstr && l.Blocks[in.Block()] {
				continue
			}
			return phi, op, bound
		}
	}
	return nil, token.ILLEGAL, nil
}

func sameSSAValue(a, b ssa.Value) bool {
	if a == b {
		return true
	}
	ca, ok1 := a.(*ssa.Const)
	cb, ok2 := b.(*ssa.Const)
	if ok1 && ok2 && ca.Value != nil && cb.Value != nil {
		return types.Identical(ca.Type(), cb.Type()) && ca.Value.ExactString() == cb.Value.ExactString()
	}
	return false
}
