package main

import (
	"flag"
	"fmt"
	"os"
	"path/filepath"
	"sort"
	"strings"
	"time"
)

func repoDir() string {
	if d := os.Getenv("VERIF_REPO"); d != "" {
		return d
	}
	return "/repo"
}

func verifDir() string {
	if d := os.Getenv("VERIF_DIR"); d != "" {
		return d
	}
	exe, err := os.Executable()
	if err == nil {
		d := filepath.Dir(filepath.Dir(exe))
		if _, err := os.Stat(filepath.Join(d, "properties.jsonl")); err == nil {
			return d
		}
	}
	return "/verif"
}

func main() {
	if len(os.Args) < 2 {
		fmt.Fprintln(os.Stderr, "usage: govc <verify|check|list|replay|selftest> ...")
		os.Exit(2)
	}
	switch os.Args[1] {
	case "verify":
		cmdVerify(os.Args[2:])
	case "list":
		cmdList(os.Args[2:])
	case "lemmas":
		st := NewSymtab()
		obs := lemmaObligations()
		cfg := &SolverCfg{QuickTimeout: 5 * time.Second, FullTimeout: 30 * time.Second, NoCache: true}
		DischargeAll(obs, st, cfg, workers())
		for _, o := range obs {
			fmt.Printf("%-7s %-6s %6.2fs %s\n", o.Result, o.Solver, o.TimeS, o.Name)
		}
	case "check":
		os.Exit(cmdCheck(os.Args[2:]))
	case "replay":
		os.Exit(cmdReplay(os.Args[2:]))
	case "locals":
		// prints the ordered local-variable lists used for rename detection (contract directive 'locals')
		p, err := loadAll("")
		if err != nil {
			fmt.Fprintln(os.Stderr, err)
			os.Exit(2)
		}
		for _, name := range os.Args[2:] {
			fn := p.Funcs[normName(strings.SplitN(name, "@", 2)[0])]
			if fn == nil {
				fmt.Printf("%s: ?\n", name)
				continue
			}
			fmt.Printf("%s: %s\n", name, strings.Join(orderedLocals(fn), " "))
		}
	case "witness":
		// selftest aid: run the witness search for the given function on the current tree
		rr := witnessSearchNode(&Obligation{Name: "selftest/" + os.Args[2], Func: os.Args[2]})
		if rr == nil {
			rr = witnessSearchTree(os.Args[3], &Obligation{Name: "selftest/" + os.Args[2], Func: os.Args[2]})
		}
		fmt.Println(rr["confirmed"], firstLines(fmt.Sprint(rr["output"]), 6))
	case "weaken":
		// debugging aid: write the quantifier-free weakening (replay model finding) of a saved query
		b, err := os.ReadFile(os.Args[2])
		if err != nil {
			fmt.Fprintln(os.Stderr, err)
			os.Exit(2)
		}
		os.WriteFile(os.Args[3], []byte(modelQuery(string(b))), 0o644)
	default:
		fmt.Fprintln(os.Stderr, "unknown command", os.Args[1])
		os.Exit(2)
	}
}

func loadAll(goarch string) (*Program, error) {
	p, err := LoadProgram(repoDir(), goarch)
	if err != nil {
		return nil, err
	}
	cf, err := ParseContracts(filepath.Join(repoDir(), "verif_contracts.go"))
	if err != nil {
		return nil, err
	}
	p.CF = cf
	return p, nil
}

func cmdList(args []string) {
	p, err := loadAll("")
	if err != nil {
		fmt.Fprintln(os.Stderr, err)
		os.Exit(2)
	}
	if len(args) > 0 && args[0] == "dbg" {
		dbgFuncs(p)
		return
	}
	for _, n := range p.FuncNames() {
		mark := " "
		if p.CF.Contracts[n] != nil {
			mark = "*"
		}
		fmt.Println(mark, n)
	}
}

// cmdVerify: developer entry point: verify named functions and print every obligation.
func cmdVerify(args []string) {
	fs := flag.NewFlagSet("verify", flag.ExitOnError)
	layer := fs.String("layer", "X", "layer tag for obligation names")
	showAll := fs.Bool("v", false, "print discharged obligations too")
	dump := fs.String("dump", "", "dump the SMT query of the obligation with this name")
	timeout := fs.Duration("timeout", 10*time.Second, "solver timeout")
	nocache := fs.Bool("nocache", false, "disable the result cache")
	goarch := fs.String("goarch", "", "GOARCH to load with")
	fs.Parse(args)
	p, err := loadAll(*goarch)
	if err != nil {
		fmt.Fprintln(os.Stderr, err)
		os.Exit(2)
	}
	st := NewSymtab()
	cfg := &SolverCfg{QuickTimeout: 3 * time.Second, FullTimeout: *timeout, CacheDir: filepath.Join(verifDir(), ".cache"), NoCache: *nocache}
	bad := 0
	for _, fn := range fs.Args() {
		t0 := time.Now()
		obs, covers, err := verifyFunc(p, st, fn, *layer, nil)
		if err != nil {
			fmt.Printf("ERROR %s: %v\n", fn, err)
			bad++
			continue
		}
		all := append(append([]*Obligation{}, obs...), covers...)
		fmt.Printf("%s: generated %d obligations in %.1fs\n", fn, len(all), time.Since(t0).Seconds())
		if os.Getenv("GOVC_NOSOLVE") != "" {
			for _, o := range all {
				if *dump != "" && strings.HasSuffix(o.Name, *dump) {
					os.WriteFile("/var/tmp/vscratch/dump.smt2", []byte(o.Query(st)), 0o644)
					fmt.Println("dumped", o.Name, "to /var/tmp/vscratch/dump.smt2")
				}
			}
			continue
		}
		if only := os.Getenv("GOVC_ONLY"); only != "" {
			// debugging aid: discharge only the obligations whose name contains the given text
			var sel []*Obligation
			for _, o := range all {
				if strings.Contains(o.Name, only) {
					sel = append(sel, o)
				}
			}
			all = sel
		}
		DischargeAll(all, st, cfg, workers())
		nok := 0
		for _, o := range all {
			ok := o.Result == "unsat"
			if o.Cover {
				ok = o.Result == "sat"
			}
			if ok {
				nok++
			} else {
				bad++
			}
			if !ok || *showAll {
				fmt.Printf("%-7s %-6s %6.2fs %s  [%s] %s\n", o.Result, o.Solver, o.TimeS, o.Name, o.Pos, o.Note)
				if !ok && o.Stdout != "" {
					fmt.Println("        ", firstLines(o.Stdout, 2))
				}
			}
			if *dump != "" && strings.HasSuffix(o.Name, *dump) {
				os.WriteFile("/var/tmp/vscratch/dump.smt2", []byte(o.Query(st)), 0o644)
				fmt.Println("dumped", o.Name, "to /var/tmp/vscratch/dump.smt2")
				if o.Model != "" {
					fmt.Println(firstLines(o.Model, 40))
				}
			}
		}
		fmt.Printf("%s: %d/%d obligations discharged in %.1fs\n", fn, nok, len(all), time.Since(t0).Seconds())
	}
	if bad > 0 {
		os.Exit(1)
	}
}

// verifyFunc generates the obligations of one function under contract.
func verifyFunc(p *Program, st0 *Symtab, fn string, layer string, opts map[string]string) (obs []*Obligation, covers []*Obligation, err error) {
	// one symbol table per function: the fresh-name counter restarts, so the queries of a function
	// are textually the same in every check that includes it (and hit the result cache)
	st := NewSymtab()
	quantCounter, lazyCounter = 0, 0
	defer func() {
		for _, o := range obs {
			o.St = st
		}
		for _, o := range covers {
			o.St = st
		}
	}()
	ex, err := NewExec(p, st, fn)
	if err != nil {
		return nil, nil, err
	}
	ex.layer = layer
	for k, v := range opts {
		ex.opts[k] = v
	}
	if err := ex.Run(); err != nil {
		return nil, nil, err
	}
	if len(ex.errors) > 0 {
		return nil, nil, fmt.Errorf("%s", strings.Join(ex.errors, "; "))
	}
	sort.SliceStable(ex.obs, func(i, j int) bool { return ex.obs[i].Name < ex.obs[j].Name })
	return ex.obs, ex.covers, nil
}

func cmdReplay(args []string) int {
	if len(args) < 1 {
		fmt.Fprintln(os.Stderr, "usage: govc replay <file>")
		return 2
	}
	b, err := os.ReadFile(args[0])
	if err != nil {
		fmt.Fprintln(os.Stderr, err)
		return 2
	}
	fmt.Println(string(b))
	return 0
}
