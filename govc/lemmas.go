package main

// Counting spec functions and their lemmas.
//
//   cntP(row, n)  = number of i in [0,n) with row[i] != null   (rows of nodeRef pointers)
//   cntNZ(row, n) = number of i in [0,n) with row[i] != 0      (rows of bytes, int mode)
//
// They are recursive definitions; the facts the node proofs need about them
// (effect of a store, bounds, monotonicity, all-null rows) require induction,
// which SMT solvers do not do unprompted. Each lemma is therefore proved here
// by the built-in induction rule (base and step are ordinary obligations,
// discharged on every run under the names lemma/<name>/{base,step}) and is
// then available to the verification conditions as a quantified axiom with an
// explicit trigger. The induction rule itself is part of the trusted core.

import (
	"fmt"
	"strings"
)

type recLemma struct {
	name  string
	vars  string // declarations of the universally quantified variables other than n (SMT binder list)
	body  string // P(n) with free variables vars and n
	pats  string // trigger
	extra string // additional hypothesis for the step (instantiated induction hypothesis uses the same vars)
}

func cntDefs(fn, rowSort, isSet string) string {
	return fmt.Sprintf("(define-fun-rec %s ((r %s) (n Int)) Int (ite (<= n 0) 0 (+ (%s r (- n 1)) (ite %s 1 0))))",
		fn, rowSort, fn, fmt.Sprintf(isSet, "(select r (- n 1))"))
}

func cntLemmas(fn, rowSort, elemSort, isSetFmt, zeroElem string) []recLemma {
	set := func(x string) string { return fmt.Sprintf(isSetFmt, x) }
	one := func(x string) string { return "(ite " + set(x) + " 1 0)" }
	return []recLemma{
		{
			name: fn + "_store",
			vars: fmt.Sprintf("(r %s) (b Int) (v %s)", rowSort, elemSort),
			body: fmt.Sprintf("(= (%s (store r b v) n) (+ (%s r n) (ite (and (<= 0 b) (< b n)) (- %s %s) 0)))", fn, fn, one("v"), one("(select r b)")),
			pats: fmt.Sprintf("(%s (store r b v) n)", fn),
		},
		{
			name: fn + "_bounds",
			vars: fmt.Sprintf("(r %s)", rowSort),
			body: fmt.Sprintf("(and (<= 0 (%s r n)) (<= (%s r n) (ite (<= n 0) 0 n)))", fn, fn),
			pats: fmt.Sprintf("(%s r n)", fn),
		},
		{
			name: fn + "_mono",
			vars: fmt.Sprintf("(r %s) (m Int)", rowSort),
			body: fmt.Sprintf("(=> (<= m n) (<= (%s r m) (%s r n)))", fn, fn),
			pats: fmt.Sprintf("(%s r m) (%s r n)", fn, fn),
		},
		{
			name: fn + "_strict",
			vars: fmt.Sprintf("(r %s) (x Int)", rowSort),
			body: fmt.Sprintf("(=> (and (<= 0 x) (< x n) %s) (< (%s r x) (%s r n)))", set("(select r x)"), fn, fn),
			pats: fmt.Sprintf("(%s r x) (%s r n)", fn, fn),
		},
		{
			name: fn + "_pos",
			vars: fmt.Sprintf("(r %s) (x Int)", rowSort),
			body: fmt.Sprintf("(=> (and (<= 0 x) (< x n) %s) (>= (%s r n) 1))", set("(select r x)"), fn),
			pats: fmt.Sprintf("(%s r n) (select r x)", fn),
		},
		{
			name: fn + "_zero",
			vars: "",
			body: fmt.Sprintf("(= (%s %s n) 0)", fn, constRow(rowSort, zeroElem)),
			pats: fmt.Sprintf("(%s %s n)", fn, constRow(rowSort, zeroElem)),
		},
	}
}

type cntFamily struct {
	fn, rowSort, elemSort, isSet, zero string
}

var cntFamilies = []cntFamily{
	{"cntP", "(Array Int Ref)", "Ref", "(not (= %s null))", "null"},
	{"cntNZ", "(Array Int Int)", "Int", "(not (= %s 0))", "0"},
}

// registerCounting installs the definitions and (proved) lemma axioms into the symbol table.
func registerCounting(st *Symtab) {
	for _, f := range cntFamilies {
		var b strings.Builder
		// In verification conditions the function is uninterpreted and characterised by its
		// successor equation (an instance of the recursive definition) and the proved lemmas:
		// z3 does not cope with define-fun-rec next to the quantified heap frames, while with
		// the axioms the same queries take milliseconds.
		fmt.Fprintf(&b, "(declare-fun %s (%s Int) Int)", f.fn, f.rowSort)
		fmt.Fprintf(&b, "\n(assert (forall ((r %s) (n Int)) (! (=> (>= n 0) (= (%s r (+ n 1)) (+ (%s r n) (ite %s 1 0)))) :pattern ((%s r (+ n 1))))))",
			f.rowSort, f.fn, f.fn, fmt.Sprintf(f.isSet, "(select r n)"), f.fn)
		for _, l := range cntLemmas(f.fn, f.rowSort, f.elemSort, f.isSet, f.zero) {
			binders := strings.TrimSpace(l.vars + " (n Int)")
			fmt.Fprintf(&b, "\n(assert (forall (%s) (! %s :pattern (%s))))", binders, l.body, l.pats)
		}
		st.Define(f.fn, b.String())
	}
}

// lemmaObligations: base and step of every induction.
func lemmaObligations() []*Obligation {
	var obs []*Obligation
	for _, f := range cntFamilies {
		def := cntDefs(f.fn, f.rowSort, f.isSet)
		obs = append(obs, &Obligation{Name: "lemma/" + f.fn + "_succ", Func: f.fn, Kind: "lemma", Pos: "govc/lemmas.go",
			Note:     "successor equation is an instance of the recursive definition",
			rawQuery: smtHeader + def + fmt.Sprintf("\n(declare-fun r () %s)\n(declare-fun n () Int)\n(assert (>= n 0))\n(assert (not (= (%s r (+ n 1)) (+ (%s r n) (ite %s 1 0)))))\n(check-sat)\n", f.rowSort, f.fn, f.fn, fmt.Sprintf(f.isSet, "(select r n)"))})
		earlier := ""
		for _, l := range cntLemmas(f.fn, f.rowSort, f.elemSort, f.isSet, f.zero) {
			def := def + earlier // lemmas proved earlier in the list may be used
			earlier += fmt.Sprintf("\n(assert (forall (%s) (! %s :pattern (%s))))", strings.TrimSpace(l.vars+" (n Int)"), l.body, l.pats)
			decl := ""
			for _, v := range splitBinders(l.vars + " (n Int)") {
				decl += fmt.Sprintf("(declare-fun %s () %s)\n", v[0], v[1])
			}
			pn := l.body
			pn1 := substN(l.body, "(- n 1)")
			base := &Obligation{Name: "lemma/" + l.name + "/base", Func: f.fn, Kind: "lemma", Pos: "govc/lemmas.go",
				Note: "induction base: n <= 0 ==> " + l.body, rawQuery: smtHeader + def + "\n" + decl + "(assert (<= n 0))\n(assert (not " + pn + "))\n(check-sat)\n"}
			step := &Obligation{Name: "lemma/" + l.name + "/step", Func: f.fn, Kind: "lemma", Pos: "govc/lemmas.go",
				Note: "induction step: n >= 1 and P(n-1) ==> P(n) for P(n) = " + l.body, rawQuery: smtHeader + def + "\n" + decl + "(assert (>= n 1))\n(assert " + pn1 + ")\n(assert (not " + pn + "))\n(check-sat)\n"}
			obs = append(obs, base, step)
		}
	}
	return obs
}

func splitBinders(s string) [][2]string {
	var out [][2]string
	for _, a := range splitArgs("(" + s + ")") {
		parts := splitArgs(a)
		if len(parts) == 2 {
			out = append(out, [2]string{parts[0], parts[1]})
		}
	}
	return out
}

// substN replaces the free variable n by the given term (token-wise).
func substN(body, with string) string {
	var b strings.Builder
	tok := ""
	flush := func() {
		if tok == "n" {
			b.WriteString(with)
		} else {
			b.WriteString(tok)
		}
		tok = ""
	}
	for _, c := range body {
		if c == '(' || c == ')' || c == ' ' {
			flush()
			b.WriteRune(c)
		} else {
			tok += string(c)
		}
	}
	flush()
	return b.String()
}

func constRow(rowSort, zero string) string {
	if zero == "null" {
		return "nullrow"
	}
	return fmt.Sprintf("((as const %s) %s)", rowSort, zero)
}
