package main

// Contract file parser. Contracts live in /repo/verif_contracts.go (build tag
// verif) as //@ comment lines in Gobra style. Grammar (one directive per
// logical line; a line that starts with more than one space after "//@" and
// does not begin with a keyword continues the previous one):
//
//   //@ func <name>[ as <alias>]        start a contract block for an SSA function
//   //@   mode bv|int
//   //@   inline                        no contract: callers inline the body
//   //@   trusted                       body is not verified (assumed contract)
//   //@   param <name> <kind>           abstract-shape hints for parameters
//   //@   let <name> = <expr>           entry-state ghost binding
//   //@   requires <expr>
//   //@   ensures <expr>
//   //@   ensures[<label>] <expr>
//   //@   assigns <heap arrays...>      frame: heap arrays the function may write
//   //@   loop <n> [unroll <k>]
//   //@     invariant <expr>
//   //@     modifies <heap arrays / cells...>
//   //@     decreases <expr>
//   //@   rel <label> <expr>            relational (two-run) obligation over a., b.
//   //@ spec <name>(<params>) = <expr>  spec macro
//   //@ lemma <name>(<typed params>) : <expr> [by induction on x]
//   //@ tag <label> <property ids...>   (bookkeeping: which properties use an obligation label)

import (
	"bufio"
	"fmt"
	"go/ast"
	"go/parser"
	"os"
	"regexp"
	"strings"
)

type Clause struct {
	Label string
	Src   string
	Expr  ast.Expr
	Line  int
}

// GhostAt: a ghost variable assigned at a program point of the function under contract.
type GhostAt struct {
	Anchor, Name string
	Expr         ast.Expr
	Src          string
}

type LoopSpec struct {
	Var         string // controlling variable (phi name) used to find the loop; ordinal is the fallback
	Ordinal     int
	Unroll      int
	Invariants  []Clause
	Modifies    []string
	Decreases   *Clause
	Ghosts      []Clause // ghost name = expr: evaluated when the loop is entered, constant during the loop
	ExitEnsures []Clause // must hold when the loop is left through its condition
	StepEnsures []Clause // relates the loop variables after one iteration (plain names) to their values at the head of that iteration (prev(x)); checked at the back edge
	Line        int
}

type Contract struct {
	FuncPat       string // name as written
	Mode          Mode
	ModeSet       bool
	Inline        bool
	Trusted       bool
	Lets          []Clause // Label = name
	Requires      []Clause
	Locals        []string  // local variable names in declaration order when the contract was written (rename detection)
	YieldRequires []Clause  // must hold whenever the sequence closure calls yield (what may be delivered)
	GhostAt       []GhostAt // ghost_at "<source text>" name = expr: evaluated just before the statement whose line contains the text
	ClosureInv    []Clause  // holds between complete calls of a range-over-func body closure (see iteratorCall)
	Captures      []Clause  // facts about captured variables: proved where the closure is created, assumed at its entry
	Ensures       []Clause
	Assigns       []string
	HasAssigns    bool
	Loops         map[int]*LoopSpec
	Rels          []Clause
	Chains        []Chain
	PathKeys      []Clause            // integer expressions whose (constant) value at a return is appended to obligation names
	CallAssumes   map[string][]Clause // callee name -> assumptions made at its call sites (documented, unproved)
	Params        map[string]string
	Line          int
	Opts          map[string]string
}

type Chain struct {
	Label  string
	Callee string
	Args   []ast.Expr
	Expr   ast.Expr
	Src    string
	Line   int
}

type SpecFn struct {
	Name   string
	Params []string
	Body   ast.Expr
	Src    string
	Line   int
}

type Lemma struct {
	Name   string
	Params []string // "name sort"
	Body   ast.Expr
	Src    string
	Line   int
	Induct string
}

type ContractFile struct {
	Path      string
	Contracts map[string]*Contract
	Order     []string
	Specs     map[string]*SpecFn
	Lemmas    []*Lemma
}

var kwRe = regexp.MustCompile(`^(func|mode|inline|trusted|param|let|requires|ensures|assigns|loop|invariant|modifies|decreases|rel|chain|assume_at_call|pathkey|spec|lemma|opt|captures|closure_inv|locals|yield_requires|ghost|exit_ensures|ghost_at|step_ensures)\b`)

var unknownDirRe = regexp.MustCompile(`^[a-z_]+\s+[A-Za-z_(\[!*"0-9]`)

func ParseContracts(path string) (*ContractFile, error) {
	f, err := os.Open(path)
	if err != nil {
		return nil, err
	}
	defer f.Close()
	cf := &ContractFile{Path: path, Contracts: map[string]*Contract{}, Specs: map[string]*SpecFn{}}
	type logical struct {
		text string
		line int
	}
	var lines []logical
	sc := bufio.NewScanner(f)
	sc.Buffer(make([]byte, 1<<20), 1<<20)
	ln := 0
	for sc.Scan() {
		ln++
		raw := sc.Text()
		t := strings.TrimSpace(raw)
		if !strings.HasPrefix(t, "//@") {
			continue
		}
		body := strings.TrimPrefix(t, "//@")
		trimmed := strings.TrimSpace(body)
		if trimmed == "" || strings.HasPrefix(trimmed, "#") {
			continue
		}
		if i := strings.Index(trimmed, " //"); i >= 0 { // trailing comment
			trimmed = strings.TrimSpace(trimmed[:i])
		}
		if kwRe.MatchString(trimmed) || len(lines) == 0 {
			lines = append(lines, logical{trimmed, ln})
		} else if unknownDirRe.MatchString(trimmed) {
			// "word expr" is never the continuation of an expression: a misspelt or unknown directive
			return nil, fmt.Errorf("%s:%d: unknown directive %q", path, ln, strings.Fields(trimmed)[0])
		} else {
			lines[len(lines)-1].text += " " + trimmed
		}
	}
	// brace expansion of template roles: "func (*{alpha,unsigned}SortedTree[K,V]).Search"
	// yields one block per alternative; "$KIND" in the block's lines is replaced by it.
	{
		var out []logical
		for i := 0; i < len(lines); {
			j := i + 1
			isSpec := strings.HasPrefix(lines[i].text, "spec ")
			if strings.HasPrefix(lines[i].text, "func ") || isSpec {
				for !isSpec && j < len(lines) && !strings.HasPrefix(lines[j].text, "func ") && !strings.HasPrefix(lines[j].text, "spec ") && !strings.HasPrefix(lines[j].text, "lemma ") {
					j++
				}
				head := lines[i].text
				if isSpec {
					if k := strings.Index(head, "="); k >= 0 {
						head = head[:k]
					}
				}
				a, b := strings.Index(head, "{"), strings.Index(head, "}")
				if a >= 0 && b > a {
					for _, alt := range strings.Split(lines[i].text[a+1:b], ",") {
						alt = strings.TrimSpace(alt)
						for k := i; k < j; k++ {
							t := lines[k].text
							if k == i {
								t = t[:a] + alt + t[b+1:]
							}
							t = strings.ReplaceAll(t, "$KIND", alt)
							out = append(out, logical{t, lines[k].line})
						}
					}
					i = j
					continue
				}
			}
			out = append(out, lines[i:j]...)
			i = j
		}
		lines = out
	}
	var cur *Contract
	var curLoop *LoopSpec
	for _, l := range lines {
		kw := kwRe.FindString(l.text)
		rest := strings.TrimSpace(strings.TrimPrefix(l.text, kw))
		fail := func(format string, a ...any) error {
			return fmt.Errorf("%s:%d: %s", path, l.line, fmt.Sprintf(format, a...))
		}
		parse := func(src string) (ast.Expr, error) {
			e, err := parser.ParseExpr(src)
			if err != nil {
				return nil, fail("cannot parse %q: %v", src, err)
			}
			return e, nil
		}
		switch kw {
		case "func":
			cur = &Contract{FuncPat: rest, Loops: map[int]*LoopSpec{}, Params: map[string]string{}, Line: l.line, Opts: map[string]string{}}
			curLoop = nil
			if _, dup := cf.Contracts[rest]; dup {
				return nil, fail("duplicate contract for %s", rest)
			}
			cf.Contracts[rest] = cur
			cf.Order = append(cf.Order, rest)
		case "spec":
			cur, curLoop = nil, nil
			i := strings.Index(rest, "=")
			if i < 0 {
				return nil, fail("spec needs '='")
			}
			head, body := strings.TrimSpace(rest[:i]), strings.TrimSpace(rest[i+1:])
			// '=' may be part of '==' inside the head? heads never contain '='
			p := strings.Index(head, "(")
			if p < 0 || !strings.HasSuffix(head, ")") {
				return nil, fail("spec head must be name(params)")
			}
			name := strings.TrimSpace(head[:p])
			var params []string
			for _, q := range strings.Split(head[p+1:len(head)-1], ",") {
				q = strings.TrimSpace(q)
				if q != "" {
					params = append(params, strings.Fields(q)[0])
				}
			}
			e, err := parse(body)
			if err != nil {
				return nil, err
			}
			cf.Specs[name] = &SpecFn{Name: name, Params: params, Body: e, Src: body, Line: l.line}
		case "lemma":
			cur, curLoop = nil, nil
			i := strings.Index(rest, ":")
			if i < 0 {
				return nil, fail("lemma needs ':'")
			}
			head, body := strings.TrimSpace(rest[:i]), strings.TrimSpace(rest[i+1:])
			p := strings.Index(head, "(")
			name := strings.TrimSpace(head[:p])
			var params []string
			for _, q := range strings.Split(head[p+1:strings.LastIndex(head, ")")], ",") {
				q = strings.TrimSpace(q)
				if q != "" {
					params = append(params, q)
				}
			}
			e, err := parse(body)
			if err != nil {
				return nil, err
			}
			cf.Lemmas = append(cf.Lemmas, &Lemma{Name: name, Params: params, Body: e, Src: body, Line: l.line})
		default:
			if cur == nil {
				return nil, fail("directive %q outside a func block", kw)
			}
			switch kw {
			case "mode":
				cur.ModeSet = true
				switch rest {
				case "bv":
					cur.Mode = ModeBV
				case "int":
					cur.Mode = ModeInt
				default:
					return nil, fail("mode must be bv or int")
				}
			case "inline":
				cur.Inline = true
			case "trusted":
				cur.Trusted = true
			case "opt":
				kv := strings.SplitN(rest, " ", 2)
				v := ""
				if len(kv) == 2 {
					v = strings.TrimSpace(kv[1])
				}
				cur.Opts[kv[0]] = v
			case "locals":
				cur.Locals = strings.Fields(rest)
			case "param":
				fs := strings.Fields(rest)
				if len(fs) < 2 {
					return nil, fail("param <name> <kind>")
				}
				cur.Params[fs[0]] = strings.Join(fs[1:], " ")
			case "let":
				i := strings.Index(rest, "=")
				if i < 0 {
					return nil, fail("let name = expr")
				}
				e, err := parse(strings.TrimSpace(rest[i+1:]))
				if err != nil {
					return nil, err
				}
				cur.Lets = append(cur.Lets, Clause{Label: strings.TrimSpace(rest[:i]), Src: rest, Expr: e, Line: l.line})
			case "requires", "ensures", "invariant", "decreases", "rel", "captures", "closure_inv", "yield_requires":
				label := ""
				if strings.HasPrefix(rest, "[") {
					j := strings.Index(rest, "]")
					label = rest[1:j]
					rest = strings.TrimSpace(rest[j+1:])
				}
				if kw == "rel" && label == "" {
					fs := strings.SplitN(rest, " ", 2)
					label, rest = fs[0], strings.TrimSpace(fs[1])
				}
				e, err := parse(rest)
				if err != nil {
					return nil, err
				}
				c := Clause{Label: label, Src: rest, Expr: e, Line: l.line}
				switch kw {
				case "requires":
					cur.Requires = append(cur.Requires, c)
				case "captures":
					cur.Captures = append(cur.Captures, c)
				case "closure_inv":
					cur.ClosureInv = append(cur.ClosureInv, c)
				case "yield_requires":
					cur.YieldRequires = append(cur.YieldRequires, c)
				case "ensures":
					cur.Ensures = append(cur.Ensures, c)
				case "rel":
					cur.Rels = append(cur.Rels, c)
				case "invariant":
					if curLoop == nil {
						return nil, fail("invariant outside loop")
					}
					curLoop.Invariants = append(curLoop.Invariants, c)
				case "decreases":
					if curLoop == nil {
						return nil, fail("decreases outside loop")
					}
					cc := c
					curLoop.Decreases = &cc
				}
			case "pathkey":
				if rest == "ret" {
					cur.PathKeys = append(cur.PathKeys, Clause{Src: "ret", Line: l.line})
					break
				}
				e, err := parse(rest)
				if err != nil {
					return nil, err
				}
				cur.PathKeys = append(cur.PathKeys, Clause{Src: rest, Expr: e, Line: l.line})
			case "assume_at_call":
				parts := strings.SplitN(rest, " : ", 2)
				if len(parts) != 2 {
					return nil, fail("assume_at_call <callee> : <expr>")
				}
				e, err := parse(strings.TrimSpace(parts[1]))
				if err != nil {
					return nil, err
				}
				if cur.CallAssumes == nil {
					cur.CallAssumes = map[string][]Clause{}
				}
				callee := normName(strings.TrimSpace(parts[0]))
				cur.CallAssumes[callee] = append(cur.CallAssumes[callee], Clause{Src: rest, Expr: e, Line: l.line})
			case "chain":
				label := ""
				if strings.HasPrefix(rest, "[") {
					j := strings.Index(rest, "]")
					label = rest[1:j]
					rest = strings.TrimSpace(rest[j+1:])
				}
				parts := strings.SplitN(rest, " : ", 2)
				if len(parts) != 2 {
					return nil, fail("chain[label] callee(args) : expr")
				}
				callTxt := strings.TrimSpace(parts[0])
				lp := strings.LastIndex(callTxt, "(")
				if lp < 0 || !strings.HasSuffix(callTxt, ")") {
					return nil, fail("chain: bad call %q", callTxt)
				}
				ch := Chain{Label: label, Callee: strings.TrimSpace(callTxt[:lp]), Src: rest, Line: l.line}
				for _, a := range strings.Split(callTxt[lp+1:len(callTxt)-1], ",") {
					a = strings.TrimSpace(a)
					if a == "" {
						continue
					}
					e, err := parse(a)
					if err != nil {
						return nil, err
					}
					ch.Args = append(ch.Args, e)
				}
				e, err := parse(strings.TrimSpace(parts[1]))
				if err != nil {
					return nil, err
				}
				ch.Expr = e
				cur.Chains = append(cur.Chains, ch)
			case "assigns":
				cur.HasAssigns = true
				for _, a := range strings.FieldsFunc(rest, func(r rune) bool { return r == ',' || r == ' ' }) {
					if a != "nothing" {
						cur.Assigns = append(cur.Assigns, a)
					}
				}
			case "loop":
				fs := strings.Fields(rest)
				var n int
				if len(fs) == 0 {
					return nil, fail("loop <n>")
				}
				if _, err := fmt.Sscanf(fs[0], "%d", &n); err != nil {
					return nil, fail("loop ordinal: %v", err)
				}
				curLoop = &LoopSpec{Ordinal: n, Line: l.line}
				for k := 1; k < len(fs); k++ {
					if fs[k] == "unroll" && k+1 < len(fs) {
						fmt.Sscanf(fs[k+1], "%d", &curLoop.Unroll)
					}
					if strings.HasPrefix(fs[k], "(") && strings.HasSuffix(fs[k], ")") {
						curLoop.Var = fs[k][1 : len(fs[k])-1]
					}
				}
				cur.Loops[n] = curLoop
			case "ghost_at":
				// ghost_at "text" name = expr
				m := regexp.MustCompile(`^"([^"]+)"\s+([A-Za-z_][A-Za-z0-9_]*)\s*=\s*(.+)$`).FindStringSubmatch(rest)
				if m == nil {
					return nil, fail("ghost_at \"<source text>\" <name> = <expr>")
				}
				e, err := parse(m[3])
				if err != nil {
					return nil, err
				}
				cur.GhostAt = append(cur.GhostAt, GhostAt{Anchor: strings.ReplaceAll(m[1], " ", ""), Name: m[2], Expr: e, Src: rest})
			case "ghost":
				if curLoop == nil {
					return nil, fail("ghost outside loop")
				}
				i := strings.Index(rest, "=")
				if i < 0 {
					return nil, fail("ghost <name> = <expr>")
				}
				e, err := parse(strings.TrimSpace(rest[i+1:]))
				if err != nil {
					return nil, err
				}
				curLoop.Ghosts = append(curLoop.Ghosts, Clause{Label: strings.TrimSpace(rest[:i]), Src: rest, Expr: e, Line: l.line})
			case "step_ensures":
				if curLoop == nil {
					return nil, fail("step_ensures outside loop")
				}
				{
					label := ""
					if strings.HasPrefix(rest, "[") {
						j := strings.Index(rest, "]")
						label = rest[1:j]
						rest = strings.TrimSpace(rest[j+1:])
					}
					e, err := parse(rest)
					if err != nil {
						return nil, err
					}
					curLoop.StepEnsures = append(curLoop.StepEnsures, Clause{Label: label, Src: rest, Expr: e, Line: l.line})
				}
			case "exit_ensures":
				if curLoop == nil {
					return nil, fail("exit_ensures outside loop")
				}
				label := ""
				if strings.HasPrefix(rest, "[") {
					j := strings.Index(rest, "]")
					label = rest[1:j]
					rest = strings.TrimSpace(rest[j+1:])
				}
				e, err := parse(rest)
				if err != nil {
					return nil, err
				}
				curLoop.ExitEnsures = append(curLoop.ExitEnsures, Clause{Label: label, Src: rest, Expr: e, Line: l.line})
			case "modifies":
				if curLoop == nil {
					return nil, fail("modifies outside loop")
				}
				for _, a := range strings.FieldsFunc(rest, func(r rune) bool { return r == ',' || r == ' ' }) {
					curLoop.Modifies = append(curLoop.Modifies, a)
				}
			}
		}
	}
	return cf, nil
}
