package main

import (
	"fmt"
	"go/token"
	"go/types"
	"math"
	"math/big"
	"os"

	"golang.org/x/tools/go/ssa"
)

func floatBits(f float64, w int) Term {
	if w == 32 {
		return BVCu(uint64(math.Float32bits(float32(f))), 32)
	}
	return BVCu(math.Float64bits(f), 64)
}

// instr executes one non-control, non-call instruction.
func (ex *Exec) instr(s *State, fr *Frame, in ssa.Instruction) {
	switch x := in.(type) {
	case *ssa.DebugRef:
		if id, ok := x.Expr.(interface{ String() string }); ok {
			_ = id
		}
		if x.Object() != nil {
			v, bound := fr.env[x.X]
			if !bound {
				if c, ok := x.X.(*ssa.Const); ok {
					v, bound = ex.constVal(c), true
				}
			}
			if bound {
				if x.IsAddr {
					if p, ok := v.(PtrV); ok && p.Kind == PCell {
						s.names[x.Object().Name()] = s.cells[p.Cell]
					}
				} else {
					s.names[x.Object().Name()] = v
				}
			}
		}
	case *ssa.Phi:
		idx := -1
		for i, p := range x.Block().Preds {
			if p == fr.prev {
				idx = i
			}
		}
		if _, done := fr.env[x]; done && ex.prog.LoopsOf(fr.fn).ByHead[x.Block()] != nil {
			// bound by the loop-head logic
			if ls := ex.loopSpecFor(fr, x.Block()); ls != nil && ls.Unroll == 0 {
				return
			}
		}
		if idx < 0 {
			ex.unsupported("phi without predecessor in %s", fr.fn.Name())
		}
		// all phis of a block read their operands simultaneously
		vals := map[*ssa.Phi]Value{}
		for _, pin := range x.Block().Instrs {
			phi, ok := pin.(*ssa.Phi)
			if !ok {
				break
			}
			vals[phi] = ex.val(fr, phi.Edges[idx])
		}
		for phi, v := range vals {
			fr.env[phi] = v
			if phi.Comment != "" {
				s.names[phi.Comment] = v
			}
		}
	case *ssa.BinOp:
		fr.env[x] = ex.nmValue(s, ex.binop(s, fr, x.Op, ex.val(fr, x.X), ex.val(fr, x.Y), x.Type(), x.X.Type(), x))
	case *ssa.UnOp:
		fr.env[x] = ex.nmValue(s, ex.unop(s, fr, x))
	case *ssa.Convert:
		fr.env[x] = ex.convert(s, fr, ex.val(fr, x.X), x.X.Type(), x.Type(), x)
	case *ssa.MultiConvert:
		fr.env[x] = ex.convert(s, fr, ex.val(fr, x.X), x.X.Type(), x.Type(), x)
	case *ssa.ChangeType:
		fr.env[x] = ex.val(fr, x.X)
	case *ssa.ChangeInterface:
		fr.env[x] = ex.val(fr, x.X)
	case *ssa.MakeInterface:
		fr.env[x] = IfaceV{Dyn: ex.subst(x.X.Type()), Val: ex.val(fr, x.X)}
	case *ssa.TypeAssert:
		fr.env[x] = ex.typeAssert(s, fr, x)
	case *ssa.Alloc:
		elem := x.Type().Underlying().(*types.Pointer).Elem()
		elem = ex.subst(elem)
		if isStruct(elem) && !isNodeRef(elem) && x.Heap && ex.isHeapStruct(elem) {
			// heap object of a struct type with a layout (leaf, node, tree)
			l := ex.layouts.Of(elem)
			obj := s.newObject(ex, l.Name, l.TypeID)
			ex.zeroObject(s, obj, elem)
			fr.env[x] = RefV{T: obj, Typ: elem}
			return
		}
		if at, ok := elem.Underlying().(*types.Array); ok && isByteType(at.Elem()) && x.Heap {
			// new [N]byte (varargs / make): a byte object
			obj := s.newObject(ex, "bytes", bytesTypeID)
			bl := s.H(ex, "blen", ArrSort(SRef, SInt))
			s.setH("blen", Store(bl, obj, IntC(at.Len())))
			for i := int64(0); i < at.Len(); i++ {
				s.storeByte(ex, obj, IntC(i), ex.intConst(big.NewInt(0), 8, false))
			}
			fr.env[x] = PtrV{Kind: PByteArr, Obj: obj, Idx: IntC(0), N: int(at.Len()), Elem: elem}
			return
		}
		cell := ex.newCell(nil)
		allocCells[x] = cell
		s.cells[cell] = ex.zero(elem)
		fr.env[x] = PtrV{Kind: PCell, Cell: cell, Elem: elem}
		if x.Comment != "" {
			s.names[x.Comment] = s.cells[cell]
		}
	case *ssa.FieldAddr:
		fr.env[x] = ex.fieldAddr(s, fr, ex.val(fr, x.X), x.X.Type(), x.Field, x)
	case *ssa.Field:
		sv := ex.val(fr, x.X).(StructV)
		st := x.X.Type().Underlying().(*types.Struct)
		fr.env[x] = sv.Fields[st.Field(x.Field).Name()]
	case *ssa.IndexAddr:
		fr.env[x] = ex.indexAddr(s, fr, x)
	case *ssa.Index:
		fr.env[x] = ex.indexVal(s, fr, x)
	case *ssa.Store:
		ex.store(s, fr, ex.val(fr, x.Addr), ex.val(fr, x.Val), x.Val.Type(), x.Pos(), x)
	case *ssa.Slice:
		fr.env[x] = ex.sliceOp(s, fr, x)
	case *ssa.MakeSlice:
		fr.env[x] = ex.makeSlice(s, fr, x)
	case *ssa.Extract:
		fr.env[x] = ex.val(fr, x.Tuple).(TupleV).Elems[x.Index]
	case *ssa.MakeClosure:
		var bs []Value
		for _, b := range x.Bindings {
			bs = append(bs, ex.val(fr, b))
		}
		fr.env[x] = FuncV{Fn: x.Fn.(*ssa.Function), Bindings: bs}
		ex.checkCaptures(s, fr, x, bs)
	case *ssa.RunDefers:
	default:
		ex.unsupported("instruction %T (%s) in %s", in, in, fr.fn.Name())
	}
}

func (ex *Exec) loopSpecFor(fr *Frame, b *ssa.BasicBlock) *LoopSpec {
	l := ex.prog.LoopsOf(fr.fn).ByHead[b]
	if l == nil {
		return nil
	}
	c := ex.prog.CF.Contracts[normName(fr.fn.RelString(ex.prog.SSA.Pkg))]
	if c == nil && fr.fn.Origin() != nil {
		c = ex.prog.CF.Contracts[normName(fr.fn.Origin().RelString(ex.prog.SSA.Pkg))]
	}
	if c == nil && fr.top {
		c = ex.contract
	}
	if c == nil {
		return nil
	}
	return ex.matchLoop(fr.fn, c, l)
}

// subst applies type-parameter bindings.
func (ex *Exec) subst(t types.Type) types.Type {
	if tp, ok := types.Unalias(t).(*types.TypeParam); ok {
		if bt := ex.bindings[tp.Obj().Name()]; bt != nil {
			return bt
		}
	}
	return t
}

func (ex *Exec) isHeapStruct(t types.Type) bool {
	n := baseTypeName(t)
	switch n {
	case "node4", "node16", "node48", "node256", "node":
		return true
	}
	if len(n) > 8 && (n[len(n)-8:] == "LeafNode" || n[len(n)-10:] == "SortedTree") {
		return true
	}
	return false
}

// zeroObject zero-initialises every field of a fresh heap object.
func (ex *Exec) zeroObject(s *State, obj Term, t types.Type) {
	st := t.Underlying().(*types.Struct)
	// slot and byte rows of a fresh object are constant-zero arrays (one store per heap array)
	sp := s.H(ex, "SP", ex.spSort())
	stt := s.H(ex, "ST", ex.stSort())
	b := s.H(ex, "B", ex.bSort())
	zb := ex.intConst(big.NewInt(0), 8, false).T
	s.setH("SP", Store(sp, obj, Term{"nullrow", ArrSort(SInt, SRef)}))
	s.setH("ST", Store(stt, obj, Term{fmt.Sprintf("((as const %s) %s)", ArrSort(SInt, ex.byteSort()), zb.S), ArrSort(SInt, ex.byteSort())}))
	s.setH("B", Store(b, obj, Term{fmt.Sprintf("((as const %s) %s)", ArrSort(SInt, ex.byteSort()), zb.S), ArrSort(SInt, ex.byteSort())}))
	var zeroScalars func(typ types.Type, prefix string)
	zeroScalars = func(typ types.Type, prefix string) {
		stt := typ.Underlying().(*types.Struct)
		for i := 0; i < stt.NumFields(); i++ {
			f := stt.Field(i)
			ft := ex.subst(f.Type())
			p := ex.heapFieldAddr(s, obj, typ, prefix, f, ft).(PtrV)
			switch p.Kind {
			case PSlot, PSlotArr, PByteArr:
				// covered by the constant rows
			case PStruct:
				zeroScalars(ft, p.Field)
			default:
				ex.storeVal(s, p, ex.zero(ft), f.Type())
			}
		}
	}
	_ = st
	zeroScalars(t, "")
}

// ---------------------------------------------------------------------------
// arithmetic

func (ex *Exec) binop(s *State, fr *Frame, op token.Token, a, b Value, resT types.Type, opT types.Type, at ssa.Instruction) Value {
	switch x := a.(type) {
	case BoolV:
		y := b.(BoolV)
		switch op {
		case token.EQL:
			return BoolV{T: Eq(x.T, y.T)}
		case token.NEQ:
			return BoolV{T: Neq(x.T, y.T)}
		case token.AND, token.LAND:
			return BoolV{T: And(x.T, y.T)}
		case token.OR, token.LOR:
			return BoolV{T: Or(x.T, y.T)}
		}
	case IntV:
		y, ok := b.(IntV)
		if !ok {
			ex.unsupported("binop %s on int and %s", op, describe(b))
		}
		return ex.intBinop(s, fr, op, x, y, at)
	case RefV:
		var yt Term
		switch y := b.(type) {
		case RefV:
			yt = y.T
		case NilV:
			yt = Null
		default:
			ex.unsupported("ref compared with %s", describe(b))
		}
		switch op {
		case token.EQL:
			return BoolV{T: Eq(x.T, yt)}
		case token.NEQ:
			return BoolV{T: Neq(x.T, yt)}
		}
	case NilV:
		if y, ok := b.(RefV); ok {
			return ex.binop(s, fr, op, y, a, resT, opT, at)
		}
		if y, ok := b.(PtrV); ok {
			return ex.binop(s, fr, op, y, a, resT, opT, at)
		}
		if _, ok := b.(NilV); ok {
			return BoolV{T: boolT(op == token.EQL)}
		}
	case PtrV:
		// pointer compared with nil: pointers formed by address-of are never nil; a *nodeRef that a
		// callee under contract returned (findChild) may be
		if _, ok := b.(NilV); ok {
			isNil := ptrIsNil(s, x)
			if op == token.NEQ {
				return BoolV{T: Not(isNil)}
			}
			return BoolV{T: isNil}
		}
		if y, ok := b.(PtrV); ok && x.Kind == y.Kind && (x.Kind == PSlot || x.Kind == PByte) {
			e := And(Eq(x.Obj, y.Obj), Eq(x.Idx, y.Idx))
			if op == token.NEQ {
				e = Not(e)
			}
			return BoolV{T: e}
		}
	case OpaqueV:
		y := b.(OpaqueV)
		switch op {
		case token.EQL:
			return BoolV{T: Eq(x.T, y.T)}
		case token.NEQ:
			return BoolV{T: Neq(x.T, y.T)}
		case token.LSS, token.GTR, token.LEQ, token.GEQ:
			// abstract order of the key type
			ex.st.Func("K.lt", []string{x.T.Sort, x.T.Sort}, SBool)
			lt := func(p, q Term) Term { return App(SBool, "K.lt", p, q) }
			switch op {
			case token.LSS:
				return BoolV{T: lt(x.T, y.T)}
			case token.GTR:
				return BoolV{T: lt(y.T, x.T)}
			case token.LEQ:
				return BoolV{T: Not(lt(y.T, x.T))}
			case token.GEQ:
				return BoolV{T: Not(lt(x.T, y.T))}
			}
		}
	case FloatV:
		y := b.(FloatV)
		fx, fy := toFP(x), toFP(y)
		switch op {
		case token.EQL:
			return BoolV{T: App(SBool, "fp.eq", fx, fy)}
		case token.NEQ:
			return BoolV{T: Not(App(SBool, "fp.eq", fx, fy))}
		case token.LSS:
			return BoolV{T: App(SBool, "fp.lt", fx, fy)}
		case token.GTR:
			return BoolV{T: App(SBool, "fp.gt", fx, fy)}
		case token.LEQ:
			return BoolV{T: App(SBool, "fp.leq", fx, fy)}
		case token.GEQ:
			return BoolV{T: App(SBool, "fp.geq", fx, fy)}
		}
	case SliceV:
		// slice == nil
		if _, ok := b.(NilV); ok && x.Kind == SlBytes {
			e := Eq(x.Obj, Null)
			if op == token.NEQ {
				e = Not(e)
			}
			return BoolV{T: e}
		}
	case IfaceV:
		if _, ok := b.(NilV); ok {
			isNil := boolT(x.Val == nil && x.Dyn == nil && x.T.S == "")
			if x.T.S != "" {
				isNil = Eq(x.T, Null)
			}
			if op == token.NEQ {
				isNil = Not(isNil)
			}
			return BoolV{T: isNil}
		}
	case FuncV:
		if _, ok := b.(NilV); ok {
			return BoolV{T: boolT(op == token.NEQ)}
		}
	}
	ex.unsupported("binop %s on %s, %s at %s", op, describe(a), describe(b), ex.prog.Pos(at.Pos()))
	return nil
}

func fpSort(w int) (string, string) {
	if w == 32 {
		return "(_ FloatingPoint 8 24)", "(_ to_fp 8 24)"
	}
	return "(_ FloatingPoint 11 53)", "(_ to_fp 11 53)"
}

func toFP(f FloatV) Term {
	srt, conv := fpSort(f.W)
	return App(srt, conv, f.Bits)
}

func (ex *Exec) intBinop(s *State, fr *Frame, op token.Token, x, y IntV, at ssa.Instruction) Value {
	cmp := func(iop, sop, uop string) Value {
		if x.T.Sort == SInt {
			return BoolV{T: ICmp(iop, x.T, y.T)}
		}
		if x.Signed {
			return BoolV{T: App(SBool, sop, x.T, y.T)}
		}
		return BoolV{T: App(SBool, uop, x.T, y.T)}
	}
	switch op {
	case token.EQL:
		return BoolV{T: Eq(x.T, y.T)}
	case token.NEQ:
		return BoolV{T: Neq(x.T, y.T)}
	case token.LSS:
		return cmp("<", "bvslt", "bvult")
	case token.LEQ:
		return cmp("<=", "bvsle", "bvule")
	case token.GTR:
		return cmp(">", "bvsgt", "bvugt")
	case token.GEQ:
		return cmp(">=", "bvsge", "bvuge")
	}
	res := IntV{W: x.W, Signed: x.Signed}
	if x.T.Sort == SInt {
		// mathematical integers with machine-range obligation
		var r Term
		switch op {
		case token.ADD:
			r = IAdd(x.T, y.T)
		case token.SUB:
			r = ISub(x.T, y.T)
		case token.MUL:
			r = IMul(x.T, y.T)
		case token.QUO:
			ex.check(s, "safety", ex.obName(fr, "divzero", at), Neq(y.T, IntC(0)), at.Pos(), "division by zero")
			r = goDiv(x.T, y.T)
		case token.REM:
			ex.check(s, "safety", ex.obName(fr, "divzero", at), Neq(y.T, IntC(0)), at.Pos(), "division by zero")
			r = goRem(x.T, y.T)
		case token.SHL:
			c, ok := y.T.IntConst()
			if !ok {
				ex.unsupported("variable shift in int mode at %s", ex.prog.Pos(at.Pos()))
			}
			r = IMul(x.T, IntBig(new(big.Int).Lsh(bigOne, uint(c.Int64()))))
		case token.SHR:
			c, ok := y.T.IntConst()
			if !ok {
				ex.unsupported("variable shift in int mode at %s", ex.prog.Pos(at.Pos()))
			}
			r = App(SInt, "div", x.T, IntBig(new(big.Int).Lsh(bigOne, uint(c.Int64()))))
			res.T = r
			return res
		default:
			ex.unsupported("bitwise %s in int mode at %s (function needs mode bv)", op, ex.prog.Pos(at.Pos()))
		}
		lo, hi := intRange(x.W, x.Signed)
		ex.check(s, "overflow", ex.obName(fr, "overflow", at), And(ICmp("<=", IntBig(lo), r), ICmp("<", r, IntBig(hi))), at.Pos(), fmt.Sprintf("%s does not overflow %d-bit", op, x.W))
		res.T = r
		return res
	}
	// bit-vector semantics (exact Go wrap-around)
	w := x.W
	sort := BVSort(w)
	switch op {
	case token.ADD:
		res.T = bvFold("bvadd", x.T, y.T, w)
	case token.SUB:
		res.T = bvFold("bvsub", x.T, y.T, w)
	case token.MUL:
		res.T = bvFold("bvmul", x.T, y.T, w)
	case token.AND:
		res.T = bvFold("bvand", x.T, y.T, w)
	case token.OR:
		res.T = bvFold("bvor", x.T, y.T, w)
	case token.XOR:
		res.T = bvFold("bvxor", x.T, y.T, w)
	case token.AND_NOT:
		res.T = App(sort, "bvand", x.T, App(sort, "bvnot", y.T))
	case token.QUO, token.REM:
		ex.check(s, "safety", ex.obName(fr, "divzero", at), Neq(y.T, BVCu(0, w)), at.Pos(), "division by zero")
		o := map[bool]map[token.Token]string{true: {token.QUO: "bvsdiv", token.REM: "bvsrem"}, false: {token.QUO: "bvudiv", token.REM: "bvurem"}}[x.Signed][op]
		res.T = App(sort, o, x.T, y.T)
	case token.SHL, token.SHR:
		// shift count: convert to width w, saturating; negative signed count panics
		cnt := y.T
		if y.Signed {
			ex.check(s, "safety", ex.obName(fr, "negshift", at), App(SBool, "bvsge", y.T, BVCu(0, y.W)), at.Pos(), "negative shift count")
		}
		var c Term
		switch {
		case y.W == w:
			c = cnt
		case y.W < w:
			c = App(sort, fmt.Sprintf("(_ zero_extend %d)", w-y.W), cnt)
		default:
			// saturate: if cnt >= w then w else low bits
			low := App(sort, fmt.Sprintf("(_ extract %d 0)", w-1), cnt)
			c = Ite(App(SBool, "bvuge", cnt, BVCu(uint64(w), y.W)), BVCu(uint64(w), w), low)
			if k, _, ok := cnt.BVConst(); ok {
				if k.Cmp(big.NewInt(int64(w))) >= 0 {
					c = BVCu(uint64(w), w)
				} else {
					c = BVC(k, w)
				}
			}
		}
		if op == token.SHL {
			res.T = App(sort, "bvshl", x.T, c)
		} else if x.Signed {
			res.T = App(sort, "bvashr", x.T, c)
		} else {
			res.T = App(sort, "bvlshr", x.T, c)
		}
	default:
		ex.unsupported("int binop %s", op)
	}
	return res
}

func bvFold(op string, a, b Term, w int) Term {
	if x, _, ok := a.BVConst(); ok {
		if y, _, ok := b.BVConst(); ok {
			r := new(big.Int)
			switch op {
			case "bvadd":
				r.Add(x, y)
			case "bvsub":
				r.Sub(x, y)
			case "bvmul":
				r.Mul(x, y)
			case "bvand":
				r.And(x, y)
			case "bvor":
				r.Or(x, y)
			case "bvxor":
				r.Xor(x, y)
			}
			return BVC(r, w)
		}
	}
	return App(BVSort(w), op, a, b)
}

// Go's truncated division on mathematical integers
func goDiv(a, b Term) Term {
	// SMT div is floored for positive divisor / euclidean; build truncation explicitly
	q := App(SInt, "div", App(SInt, "abs", a), App(SInt, "abs", b))
	neg := App(SBool, "xor", ICmp("<", a, IntC(0)), ICmp("<", b, IntC(0)))
	return Ite(neg, App(SInt, "-", q), q)
}
func goRem(a, b Term) Term {
	return ISub(a, IMul(goDiv(a, b), b))
}

func (ex *Exec) unop(s *State, fr *Frame, x *ssa.UnOp) Value {
	v := ex.val(fr, x.X)
	switch x.Op {
	case token.MUL: // load
		ex.nilCheckPtr(s, fr, v, x)
		if s.dead {
			return nil
		}
		return ex.load(s, fr, v, x.Type(), x.Pos(), x)
	case token.NOT:
		return BoolV{T: Not(v.(BoolV).T)}
	case token.SUB:
		if f, ok := v.(FloatV); ok {
			_ = f
			ex.unsupported("float negation")
		}
		iv := v.(IntV)
		if iv.T.Sort == SInt {
			r := ISub(IntC(0), iv.T)
			lo, hi := intRange(iv.W, iv.Signed)
			ex.check(s, "overflow", ex.obName(fr, "overflow", x), And(ICmp("<=", IntBig(lo), r), ICmp("<", r, IntBig(hi))), x.Pos(), "negation overflow")
			return IntV{T: r, W: iv.W, Signed: iv.Signed}
		}
		return IntV{T: App(iv.T.Sort, "bvneg", iv.T), W: iv.W, Signed: iv.Signed}
	case token.XOR:
		iv := v.(IntV)
		if iv.T.Sort == SInt {
			ex.unsupported("bitwise not in int mode at %s", ex.prog.Pos(x.Pos()))
		}
		if c, w, ok := iv.T.BVConst(); ok {
			m := new(big.Int).Sub(new(big.Int).Lsh(bigOne, uint(w)), bigOne)
			return IntV{T: BVC(new(big.Int).Xor(c, m), w), W: iv.W, Signed: iv.Signed}
		}
		return IntV{T: App(iv.T.Sort, "bvnot", iv.T), W: iv.W, Signed: iv.Signed}
	}
	ex.unsupported("unop %s", x.Op)
	return nil
}

// ---------------------------------------------------------------------------
// conversions

func (ex *Exec) convert(s *State, fr *Frame, v Value, from, to types.Type, at ssa.Instruction) Value {
	from, to = ex.subst(from), ex.subst(to)
	// integer -> integer
	if iv, ok := v.(IntV); ok {
		if w, sg, ok := intInfo(to); ok {
			return ex.convInt(s, fr, iv, w, sg, at)
		}
		if fw, ok := floatWidth(to); ok {
			// int -> float: only constants occur (K(0))
			if c, ok := iv.T.IntConst(); ok {
				f, _ := new(big.Float).SetInt(c).Float64()
				return FloatV{Bits: floatBits(f, fw), W: fw}
			}
			if c, _, ok := iv.T.BVConst(); ok {
				f, _ := new(big.Float).SetInt(c).Float64()
				return FloatV{Bits: floatBits(f, fw), W: fw}
			}
			ex.unsupported("int->float conversion of non-constant")
		}
	}
	if fv, ok := v.(FloatV); ok {
		if fw, ok := floatWidth(to); ok {
			if fw == fv.W {
				return fv
			}
			// float32 <-> float64: result bits are some pattern whose value is the rounded value
			r := ex.st.Fresh("fconv", BVSort(fw))
			srt, conv := fpSort(fw)
			tgt := App(srt, conv+" RNE", toFP(fv))
			_ = conv
			// (= (to_fp r) tgt) handles NaN as "r is some NaN"
			s.assume(Or(And(App(SBool, "fp.isNaN", tgt), App(SBool, "fp.isNaN", toFP(FloatV{Bits: r, W: fw}))), Eq(toFP(FloatV{Bits: r, W: fw}), tgt)))
			// sign of zero / exactness: = on FP sort is structural equality, so -0/+0 are distinguished
			return FloatV{Bits: r, W: fw}
		}
	}
	// unsafe.Pointer <-> pointers
	if isUnsafePtr(to) {
		switch p := v.(type) {
		case RefV:
			return RefV{T: p.T}
		case PtrV:
			if p.Kind == PCell || p.Kind == PSub {
				return p // &local passed through unsafe.Pointer for reinterpretation
			}
			if p.Kind == PStruct && p.Field == "" {
				return RefV{T: p.Obj}
			}
		case NilV:
			return RefV{T: Null}
		}
		ex.unsupported("conversion of %s to unsafe.Pointer", describe(v))
	}
	if isUnsafePtr(from) {
		pt, ok := to.Underlying().(*types.Pointer)
		if !ok {
			// conversion to a type parameter constrained to leaf pointers: keep the ref
			if rv, ok := v.(RefV); ok {
				return RefV{T: rv.T, Typ: nil}
			}
			ex.unsupported("unsafe.Pointer -> %s", to)
		}
		switch p := v.(type) {
		case RefV:
			s.instantiateAt(ex, p.T)
			ex.castObligation(s, fr, p.T, pt.Elem(), at)
			return RefV{T: p.T, Typ: ex.subst(pt.Elem())}
		case PtrV:
			// reinterpretation of a local: *(*uint32)(unsafe.Pointer(&k))
			n := p
			n.Elem = pt.Elem()
			return PtrV{Kind: p.Kind, Cell: p.Cell, Path: p.Path, Elem: pt.Elem(), Field: "reinterpret"}
		}
	}
	// string / []byte conversions
	if sl, ok := v.(SliceV); ok {
		toB, isB := to.Underlying().(*types.Basic)
		_, toSlice := to.Underlying().(*types.Slice)
		_, fromSlice := from.Underlying().(*types.Slice)
		switch {
		case toSlice && fromSlice:
			return sl // []byte -> []byte (identity)
		case toSlice && sl.IsStr:
			return ex.copyBytes(s, sl, false) // []byte(string): fresh copy
		case isB && toB.Kind() == types.String && !sl.IsStr:
			return ex.copyBytes(s, sl, true) // string([]byte): fresh copy
		case isB && toB.Kind() == types.String && sl.IsStr:
			return sl
		}
	}
	if ov, ok := v.(OpaqueV); ok {
		// conversion between type-parameter-typed values and their bound type
		return ov
	}
	if rv, ok := v.(RefV); ok {
		if pt, ok := to.Underlying().(*types.Pointer); ok {
			return RefV{T: rv.T, Typ: pt.Elem()}
		}
		if _, ok := types.Unalias(to).(*types.TypeParam); ok {
			return rv
		}
	}
	if _, ok := v.(NilV); ok {
		return v
	}
	ex.unsupported("conversion %s -> %s of %s at %s", from, to, describe(v), ex.prog.Pos(at.Pos()))
	return nil
}

func (ex *Exec) convInt(s *State, fr *Frame, iv IntV, w int, sg bool, at ssa.Instruction) Value {
	if iv.T.Sort == SInt {
		// value-preserving conversion required (lossy conversions are reported)
		lo, hi := intRange(w, sg)
		slo, shi := intRange(iv.W, iv.Signed)
		if slo.Cmp(lo) < 0 || shi.Cmp(hi) > 0 {
			ex.check(s, "overflow", ex.obName(fr, "convert", at), And(ICmp("<=", IntBig(lo), iv.T), ICmp("<", iv.T, IntBig(hi))), at.Pos(), fmt.Sprintf("conversion to %d-bit keeps the value", w))
		}
		return IntV{T: iv.T, W: w, Signed: sg}
	}
	switch {
	case w == iv.W:
		return IntV{T: iv.T, W: w, Signed: sg}
	case w < iv.W:
		if c, _, ok := iv.T.BVConst(); ok {
			return IntV{T: BVC(c, w), W: w, Signed: sg}
		}
		return IntV{T: App(BVSort(w), fmt.Sprintf("(_ extract %d 0)", w-1), iv.T), W: w, Signed: sg}
	default:
		if c, cw, ok := iv.T.BVConst(); ok {
			if iv.Signed && c.Bit(cw-1) == 1 {
				c = new(big.Int).Sub(c, new(big.Int).Lsh(bigOne, uint(cw)))
			}
			return IntV{T: BVC(c, w), W: w, Signed: sg}
		}
		ext := "zero_extend"
		if iv.Signed {
			ext = "sign_extend"
		}
		return IntV{T: App(BVSort(w), fmt.Sprintf("(_ %s %d)", ext, w-iv.W), iv.T), W: w, Signed: sg}
	}
}

// copyBytes allocates a fresh byte object holding a copy of sl's contents.
func (ex *Exec) copyBytes(s *State, sl SliceV, asStr bool) SliceV {
	obj := s.newObject(ex, "bytes", bytesTypeID)
	bl := s.H(ex, "blen", ArrSort(SRef, SInt))
	s.setH("blen", Store(bl, obj, sl.Len))
	b := s.H(ex, "B", ex.bSort())
	// contents: forall i in [0,len): B'[obj][i] == B[src][off+i]  (fresh array constrained by a quantifier)
	na := ex.st.Fresh("copy", ArrSort(SInt, ex.byteSort()))
	i := Term{"cp!i", SInt}
	body := Implies(And(ICmp("<=", IntC(0), i), ICmp("<", i, sl.Len)), Eq(Select(na, i), Select(Select(b, sl.Obj), IAdd(sl.Off, i))))
	s.assume(Term{"(forall ((cp!i Int)) (! " + body.S + " :pattern (" + Select(na, i).S + ")))", SBool})
	s.setH("B", Store(b, obj, na))
	return SliceV{Kind: SlBytes, Obj: obj, Off: IntC(0), Len: sl.Len, Cap: sl.Len, IsStr: asStr, Elem: sl.Elem}
}

func (ex *Exec) typeAssert(s *State, fr *Frame, x *ssa.TypeAssert) Value {
	v := ex.val(fr, x.X)
	iv, ok := v.(IfaceV)
	if !ok {
		ex.unsupported("type assertion on %s", describe(v))
	}
	want := ex.subst(x.AssertedType)
	if iv.Dyn != nil {
		match := types.Identical(iv.Dyn, want)
		if x.CommaOk {
			if match {
				return TupleV{Elems: []Value{iv.Val, BoolV{T: True}}}
			}
			return TupleV{Elems: []Value{ex.zero(want), BoolV{T: False}}}
		}
		if !match {
			ex.emit(s, "safety", ex.obName(fr, "typeassert", x), False, x.Pos(), "type assertion fails")
			s.dead = true
			return nil
		}
		return iv.Val
	}
	// abstract interface (e.g. result of sync.Pool.Get): the model supplies Dyn
	ex.unsupported("type assertion on abstract interface at %s", ex.prog.Pos(x.Pos()))
	return nil
}

// castObligation: unsafe.Pointer -> *T requires the object's allocation type to be layout-compatible with T.
func (ex *Exec) castObligation(s *State, fr *Frame, p Term, elem types.Type, at ssa.Instruction) {
	if ex.opts["casts"] != "on" {
		return
	}
	elem = ex.subst(elem)
	if !isStruct(elem) {
		return
	}
	name := baseTypeName(elem)
	at0 := Term{"", ""}
	_ = at0
	var ok Term
	if name == "node" {
		// any inner node class embeds node at offset 0
		var alts []Term
		for _, n := range []string{"node4", "node16", "node48", "node256"} {
			if l := ex.layoutByName(n); l != nil {
				alts = append(alts, Eq(atypeOf(ex.st, p), IntC(int64(l.TypeID))))
			}
		}
		ok = Or(alts...)
	} else {
		l := ex.layouts.Of(elem)
		ok = Eq(atypeOf(ex.st, p), IntC(int64(ex.layoutClass(l, elem))))
	}
	ex.emit(s, "cast", fmt.Sprintf("cast/%s/%s@%s", normName(fr.fn.RelString(ex.prog.SSA.Pkg)), name, ex.anchor(at.Pos())), Or(Eq(p, Null), ok), at.Pos(), "unsafe.Pointer converted to *"+name+" only when the object was allocated with an identical layout")
}

func (ex *Exec) layoutByName(n string) *StructLayout {
	if l, ok := ex.layouts.byName[n]; ok {
		return l
	}
	if obj := ex.prog.Pkg.Types.Scope().Lookup(n); obj != nil {
		return ex.layouts.Of(obj.Type())
	}
	return nil
}

// layoutClass: leaf types with identical memory layout share a class id.
func (ex *Exec) layoutClass(l *StructLayout, t types.Type) int {
	return l.TypeID
}

// ptrIsNil: nil-ness of an interior pointer. Slot pointers returned by callees under contract are
// nullable (the object component is null for a nil pointer); every other pointer shape comes from
// an address-of and is known non-nil.
func ptrIsNil(s *State, p PtrV) Term {
	if p.Kind != PSlot || p.Obj.S == "" || os.Getenv("GOVC_SELFTEST_OLDNIL") != "" {
		return False // (the environment switch re-creates the hole of section 12.5 for the self-test of the reach obligations)
	}
	if s.neq[p.Obj.S+"|null"] || isFreshSym(p.Obj.S) {
		return False
	}
	if p.Obj.S == "null" {
		return True
	}
	return Eq(p.Obj, Null)
}

// nilCheckPtr: dereferencing a nullable slot pointer (see ptrIsNil) carries a nil obligation.
func (ex *Exec) nilCheckPtr(s *State, fr *Frame, v Value, at ssa.Instruction) {
	p, ok := v.(PtrV)
	if !ok {
		return
	}
	isNil := ptrIsNil(s, p)
	if isNil.IsFalse() {
		return
	}
	ex.emit(s, "safety", ex.obName(fr, "nil", at), Not(isNil), at.Pos(), "nil pointer dereference (*nodeRef returned by a callee)")
	if isNil.IsTrue() {
		s.dead = true
		return
	}
	s.assume(Not(isNil))
}
