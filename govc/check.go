package main

// Property checks: select obligations per property, discharge them, apply the
// known-findings file, write evidence and replay files, print VIOLATION lines.

import (
	"encoding/json"
	"flag"
	"fmt"
	"os"
	"path/filepath"
	"regexp"
	"sort"
	"strconv"
	"strings"
	"time"
)

type FuncCheck struct {
	Fn      string            // function under contract
	Layer   string            // obligation name prefix
	Include []string          // regexps on obligation names (empty: all)
	Exclude []string          // regexps on obligation names
	Opts    map[string]string // executor options (casts=on, extent=on, bind=...)
	Goarch  string            // load the package for another GOARCH (node16_other.go)
}

type PropDef struct {
	ID          string
	Funcs       []FuncCheck
	Asm         bool                           // include the amd64 assembly obligations (node16)
	Lemmas      bool                           // include the induction proofs of the counting lemmas
	Static      func(p *Program) []*Obligation // solver-free obligations over the SSA
	Trusted     []string
	Assumptions []string
	Floor       int // vacuity: minimal number of obligations
	DesignRef   string
}

type KnownFinding struct {
	Property   string `json:"property"`
	Obligation string `json:"obligation"` // regexp on the obligation name
	What       string `json:"what"`
	Fixed      bool   `json:"fixed,omitempty"`
	Commit     string `json:"commit,omitempty"`
}

func loadKnownFindings(dir string) []KnownFinding {
	b, err := os.ReadFile(filepath.Join(dir, "known_findings.jsonl"))
	if err != nil {
		return nil
	}
	var out []KnownFinding
	for _, l := range strings.Split(string(b), "\n") {
		l = strings.TrimSpace(l)
		if l == "" || strings.HasPrefix(l, "#") {
			continue
		}
		var k KnownFinding
		if err := json.Unmarshal([]byte(l), &k); err == nil {
			out = append(out, k)
		}
	}
	return out
}

type checkResult struct {
	obs      []*Obligation
	covers   []*Obligation
	genErrs  []string // generation failures (function -> error)
	funcs    []string
	asmNotes []string
	bounded  []map[string]any
}

func cmdCheck(args []string) int {
	fs := flag.NewFlagSet("check", flag.ExitOnError)
	pid := fs.String("p", "", "property id")
	tier := fs.String("tier", "", "quick|thorough")
	fs.Parse(args)
	if *tier == "" {
		*tier = os.Getenv("VERIF_TIER")
	}
	if *tier == "" {
		*tier = "quick"
	}
	seed := 0
	if s := os.Getenv("VERIF_SEED"); s != "" {
		seed, _ = strconv.Atoi(s)
	}
	def := propDefs()[*pid]
	if def == nil {
		fmt.Fprintf(os.Stderr, "no check for property %q\n", *pid)
		return 2
	}
	t0 := time.Now()
	vd := verifDir()
	// the checker itself must never crash into an exit status that means nothing: an internal
	// failure is reported as a generation error (fail closed, exit 1, VIOLATION line)
	defer func() {
		if r := recover(); r != nil {
			if os.Getenv("GOVC_PANIC") != "" {
				panic(r)
			}
			rdir := filepath.Join(vd, "replays", def.ID)
			os.MkdirAll(rdir, 0o755)
			path := filepath.Join(rdir, "generation-internal.json")
			writeJSON(path, map[string]any{"property": def.ID, "obligation": "generation", "error": fmt.Sprint(r),
				"explanation": "the checker failed internally while generating or discharging the obligations; this fails closed"})
			fmt.Printf("VIOLATION property=%s replay=%s obligation=generation %s no-failing-input-found\n", def.ID, path, oneLine(fmt.Sprint(r)))
			os.Exit(1)
		}
	}()
	cfg := &SolverCfg{QuickTimeout: 8 * time.Second, FullTimeout: 60 * time.Second, CacheDir: filepath.Join(vd, ".cache"), NoCache: os.Getenv("VERIF_NOCACHE") == "1"}
	if *tier == "thorough" {
		cfg.Agree = true
		cfg.FullTimeout = 120 * time.Second
	}
	known := loadKnownFindings(vd)
	cfg.NoRetry = func(o *Obligation) bool {
		for _, k := range known {
			if !k.Fixed && k.Property == def.ID {
				if ok, _ := regexp.MatchString(k.Obligation, o.Name); ok {
					return true
				}
			}
		}
		return false
	}
	res := runProp(def, cfg, *tier)
	// classify
	type viol struct {
		o      *Obligation
		replay string
		conf   bool
	}
	var viols []viol
	var knownHit = map[int][]string{}
	discharged, total := 0, 0
	byBackend := map[string]int{}
	solverTime := 0.0
	cacheHits := 0
	var undis []map[string]any
	var knownObs []string
	for _, o := range res.obs {
		solverTime += o.TimeS
		if o.Cached {
			cacheHits++
		}
		if o.Result == "unsat" {
			total++
			discharged++
			byBackend[o.Solver]++
			continue
		}
		// not discharged: known finding?
		matched := -1
		for i, k := range known {
			if k.Fixed || k.Property != def.ID {
				continue
			}
			if ok, _ := regexp.MatchString(k.Obligation, o.Name); ok {
				matched = i
				break
			}
		}
		if matched >= 0 {
			knownHit[matched] = append(knownHit[matched], o.Name)
			knownObs = append(knownObs, o.Name)
			continue
		}
		total++
		undis = append(undis, map[string]any{"name": o.Name, "result": o.Result, "solver": o.Solver, "pos": o.Pos, "note": o.Note})
		viols = append(viols, viol{o: o})
	}
	// vacuity probes
	vacRun, vacOK := 0, 0
	broken := false
	for _, c := range res.covers {
		vacRun++
		if c.Result == "sat" {
			vacOK++
		} else {
			fmt.Printf("VACUITY: %s precondition not satisfiable (%s)\n", c.Name, c.Result)
			broken = true
		}
	}
	if total < def.Floor {
		fmt.Printf("VACUITY: only %d obligations generated for %s (floor %d)\n", total, def.ID, def.Floor)
		broken = true
	}
	// replay files and VIOLATION lines
	rdir := filepath.Join(vd, "replays", def.ID)
	os.MkdirAll(rdir, 0o755)
	nviol := 0
	for _, ge := range res.genErrs {
		nviol++
		name := "generation-" + strconv.Itoa(nviol)
		path := filepath.Join(rdir, name+".json")
		writeJSON(path, map[string]any{"property": def.ID, "obligation": "generation", "error": ge,
			"explanation": "the obligations of a function under contract could not be generated from the current source (construct outside the verified subset, missing function or anchor); this fails closed"})
		fmt.Printf("VIOLATION property=%s replay=%s obligation=generation %s no-failing-input-found\n", def.ID, path, oneLine(ge))
	}
	st := lastSymtab
	nodeReplays := 0
	treeWitness := map[string]map[string]any{}
	for _, v := range viols {
		nviol++
		o := v.o
		name := sanitize(o.Name)
		if len(name) > 150 {
			name = name[:150]
		}
		path := filepath.Join(rdir, name+".json")
		smtPath := filepath.Join(rdir, name+".smt2")
		if st != nil {
			os.WriteFile(smtPath, []byte(o.Query(st)), 0o644)
		}
		rep := map[string]any{"property": def.ID, "obligation": o.Name, "function": o.Func, "kind": o.Kind, "position": o.Pos,
			"clause": o.Note, "solver_result": o.Result, "solver": o.Solver, "solver_output": o.Stdout, "query": smtPath}
		confirmed := false
		if (o.Result == "sat" && o.Model != "") || nodeFnRe.MatchString(o.Func) || len(witnessClasses[def.ID]) > 0 {
			var rr map[string]any
			if o.Result == "sat" && o.Model != "" {
				rep["model"] = modelSummary(o.Model)
				rr = tryReplay(res, o)
			}
			if rr == nil && nodeReplays < 6 && st != nil {
				// node-level counterexample: rebuild the node from the model and run the real operation
				if rr = tryReplayNode(o, o.Query(st)); rr != nil {
					nodeReplays++
				}
			}
			if rr == nil && !nodeFnRe.MatchString(o.Func) && len(witnessClasses[def.ID]) > 0 {
				// tree level: one witness search per tree kind and run
				kind := treeKindOf(o.Func)
				if cached, ok := treeWitness[kind]; ok {
					rr = cached
				} else {
					rr = witnessSearchTree(def.ID, o)
					treeWitness[kind] = rr
				}
			}
			if rr != nil {
				rep["replay"] = rr
				if c, _ := rr["confirmed"].(bool); c {
					confirmed = true
				}
			}
		}
		writeJSON(path, rep)
		suffix := ""
		if !confirmed {
			suffix = " no-failing-input-found"
		}
		fmt.Printf("VIOLATION property=%s replay=%s obligation=%s result=%s%s\n", def.ID, path, o.Name, o.Result, suffix)
	}
	var kidx []int
	for i := range knownHit {
		kidx = append(kidx, i)
	}
	sort.Ints(kidx)
	for _, i := range kidx {
		fmt.Printf("KNOWN-FINDING: property=%s %s (%d obligation instances: %s)\n", def.ID, known[i].What, len(knownHit[i]), strings.Join(uniqBase(knownHit[i]), ", "))
	}
	// evidence
	samples := pickSamples(res.obs, st)
	slow := slowest(res.obs, 5)
	trusted := append([]string{}, def.Trusted...)
	var ext []string
	for e := range usedExternals {
		ext = append(ext, e)
	}
	sort.Strings(ext)
	for _, e := range ext {
		trusted = append(trusted, "assumed contract (built-in model): "+e)
	}
	trusted = append(trusted, "go/ssa lowering (x/tools v0.50.0) of the Go source; govc VC generator and memory model; SMT solvers z3 4.8.12 / z3 5.1.0 / cvc5 1.0.3")
	nn := func(v []string) []string {
		if v == nil {
			return []string{}
		}
		return v
	}
	if res.bounded == nil {
		res.bounded = []map[string]any{}
	}
	if undis == nil {
		undis = []map[string]any{}
	}
	ev := map[string]any{
		"property_id": def.ID,
		"tier":        *tier,
		"seed":        seed,
		"level":       "proof",
		"coverage": map[string]any{
			"obligations":               total,
			"discharged":                discharged,
			"checker_cmd":               fmt.Sprintf("bin/govc check -p %s -tier %s", def.ID, *tier),
			"trusted_base":              trusted,
			"functions_under_contract":  nn(res.funcs),
			"by_backend":                byBackend,
			"solver_time_s":             round2(solverTime),
			"slowest":                   slow,
			"cache_hits":                cacheHits,
			"bounded":                   res.bounded,
			"vacuity":                   map[string]any{"probes_run": vacRun, "probes_passed": vacOK, "obligation_floor": def.Floor},
			"undischarged":              undis,
			"known_finding_obligations": nn(knownObs),
			"generation_errors":         nn(res.genErrs),
			"samples":                   samples,
			"asm":                       nn(res.asmNotes),
		},
		"assumptions": nn(def.Assumptions),
		"wall_s":      round2(time.Since(t0).Seconds()),
		"violations":  nviol,
	}
	os.MkdirAll(filepath.Join(vd, "evidence"), 0o755)
	writeJSON(filepath.Join(vd, "evidence", def.ID+".json"), ev)
	fmt.Printf("%s [%s]: %d/%d obligations discharged, %d known-finding instances, %d violations, %d generation errors, %.1fs\n", def.ID, *tier, discharged, total, len(knownObs), len(viols), len(res.genErrs), time.Since(t0).Seconds())
	if broken {
		fmt.Println("CHECK BROKEN: vacuity probe failed (this is a defect of the check, not a verdict)")
		return 3
	}
	if nviol > 0 {
		return 1
	}
	return 0
}

var lastSymtab *Symtab
var lastProgram *Program

func runProp(def *PropDef, cfg *SolverCfg, tier string) *checkResult {
	res := &checkResult{}
	progs := map[string]*Program{}
	st := NewSymtab()
	lastSymtab = st
	for _, fc := range def.Funcs {
		p := progs[fc.Goarch]
		if p == nil {
			var err error
			p, err = loadAll(fc.Goarch)
			if err != nil {
				res.genErrs = append(res.genErrs, fmt.Sprintf("load (GOARCH=%q): %v", fc.Goarch, err))
				return res
			}
			progs[fc.Goarch] = p
			if fc.Goarch == "" {
				lastProgram = p
			}
		}
		obs, covers, err := verifyFunc(p, st, fc.Fn, fc.Layer, fc.Opts)
		if err != nil {
			res.genErrs = append(res.genErrs, fmt.Sprintf("%s: %v", fc.Fn, err))
			continue
		}
		label := fc.Fn
		if fc.Goarch != "" {
			label += " [GOARCH=" + fc.Goarch + "]"
		}
		res.funcs = append(res.funcs, label)
		inc := compileAll(fc.Include)
		exc := compileAll(fc.Exclude)
		for _, o := range obs {
			if len(inc) > 0 && !matchAny(inc, o.Name) {
				continue
			}
			if matchAny(exc, o.Name) {
				continue
			}
			if fc.Goarch != "" {
				o.Name = o.Name + "[" + fc.Goarch + "]"
			}
			res.obs = append(res.obs, o)
		}
		res.covers = append(res.covers, covers...)
	}
	if def.Asm {
		aobs, notes, err := asmObligations(st, filepath.Join(repoDir(), "node16_amd64.s"))
		if err != nil {
			res.genErrs = append(res.genErrs, "node16_amd64.s: "+err.Error())
		}
		res.obs = append(res.obs, aobs...)
		res.asmNotes = notes
		res.funcs = append(res.funcs, "searchNode16 [node16_amd64.s]", "insertPosNode16 [node16_amd64.s]")
	}
	if def.Static != nil {
		p := progs[""]
		if p == nil {
			var err error
			p, err = loadAll("")
			if err != nil {
				res.genErrs = append(res.genErrs, "load: "+err.Error())
				return res
			}
			lastProgram = p
		}
		res.obs = append(res.obs, def.Static(p)...)
	}
	if def.Lemmas {
		res.obs = append(res.obs, lemmaObligations()...)
		res.funcs = append(res.funcs, "cntP / cntNZ counting lemmas (govc/lemmas.go, induction)")
	}
	all := append(append([]*Obligation{}, res.obs...), res.covers...)
	DischargeAll(all, st, cfg, workers())
	return res
}

func compileAll(ps []string) []*regexp.Regexp {
	var out []*regexp.Regexp
	for _, p := range ps {
		out = append(out, regexp.MustCompile(p))
	}
	return out
}

func matchAny(rs []*regexp.Regexp, s string) bool {
	for _, r := range rs {
		if r.MatchString(s) {
			return true
		}
	}
	return false
}

func writeJSON(path string, v any) {
	b, _ := json.MarshalIndent(v, "", " ")
	os.WriteFile(path, append(b, '\n'), 0o644)
}

func round2(f float64) float64 { return float64(int(f*100+0.5)) / 100 }

func oneLine(s string) string {
	s = strings.ReplaceAll(s, "\n", " ")
	if len(s) > 200 {
		s = s[:200]
	}
	return strings.ReplaceAll(s, " ", "_")
}

func uniqBase(names []string) []string {
	seen := map[string]bool{}
	var out []string
	for _, n := range names {
		if i := strings.Index(n, "~"); i >= 0 {
			n = n[:i]
		}
		if !seen[n] {
			seen[n] = true
			out = append(out, n)
		}
	}
	sort.Strings(out)
	return out
}

func pickSamples(obs []*Obligation, st *Symtab) []map[string]any {
	var out []map[string]any
	step := len(obs)/3 + 1
	for i := 0; i < len(obs) && len(out) < 3; i += step {
		o := obs[i]
		size := 0
		if st != nil && o.Solver != "simplifier" {
			size = len(o.Query(st))
		}
		out = append(out, map[string]any{"name": o.Name, "kind": o.Kind, "clause": o.Note, "pos": o.Pos, "smt_bytes": size, "answer": o.Result, "solver": o.Solver, "time_s": round2(o.TimeS)})
	}
	return out
}

func slowest(obs []*Obligation, n int) []map[string]any {
	c := append([]*Obligation{}, obs...)
	sort.Slice(c, func(i, j int) bool { return c[i].TimeS > c[j].TimeS })
	var out []map[string]any
	for i := 0; i < n && i < len(c); i++ {
		out = append(out, map[string]any{"name": c[i].Name, "time_s": round2(c[i].TimeS), "solver": c[i].Solver})
	}
	return out
}

var defineFunRe = regexp.MustCompile(`\(define-fun\s+(\S+)\s+\(\)\s+(\([^)]*\)|\S+)\s+([^\n]+?)\)\s*$`)

// modelSummary extracts the values of input symbols (p.*) from a solver model.
func modelSummary(model string) map[string]string {
	out := map[string]string{}
	lines := strings.Split(model, "\n")
	for i := 0; i < len(lines); i++ {
		l := strings.TrimSpace(lines[i])
		if !strings.HasPrefix(l, "(define-fun ") {
			continue
		}
		// join a following value line
		full := l
		if i+1 < len(lines) && !strings.HasPrefix(strings.TrimSpace(lines[i+1]), "(define-fun") {
			full = l + " " + strings.TrimSpace(lines[i+1])
		}
		if m := defineFunRe.FindStringSubmatch(full); m != nil {
			if strings.HasPrefix(m[1], "p.") || strings.HasPrefix(m[1], "loop.") {
				out[m[1]] = strings.TrimSpace(m[3])
			}
		}
	}
	return out
}
