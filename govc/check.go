package main

func cmdCheck(args []string) int { return 2 }
