package main

// Evaluation of contract expressions (Go expression syntax + spec built-ins)
// over symbolic states.

import (
	"fmt"
	"go/ast"
	"go/token"
	"go/types"
	"math/big"
	"strconv"
	"strings"

	"golang.org/x/tools/go/ssa"
)

type SpecEnv struct {
	ex           *Exec
	cur          *State
	old          *State
	vars         map[string]Value
	results      []Value
	fn           *ssa.Function
	fr           *Frame
	calleeMode   bool
	assigned     []string
	qn           *int
	guard        []Term           // antecedents in force (assume polarity), for lazily instantiated universals
	lazyOK       bool             // forallref may be registered as a lazy universal / skolemised
	prevNames    map[string]Value // step_ensures: values of the loop variables at the head of the iteration (prev(x))
	nameFallback *State           // inside old(): locals that did not exist at entry keep their current value
	pol          int              // +1: formula will be proved, -1: formula will be assumed, 0: unknown polarity
}

// UntypedInt: integer literal that adapts to its context.
type UntypedInt struct{ N *big.Int }

func (UntypedInt) vkind() string { return "untyped" }

var quantCounter int

func (e *SpecEnv) flip() *SpecEnv {
	n := *e
	n.pol = -e.pol
	return &n
}

func (e *SpecEnv) nopol() *SpecEnv {
	n := *e
	n.pol = 0
	return &n
}

// evalAssume / evalProve evaluate a clause with the polarity it will be used in.
func (e *SpecEnv) evalAssume(x ast.Expr) Term {
	n := *e
	n.pol = -1
	n.lazyOK = e.ex.opts["lazy"] != "off"
	return n.evalBool(x)
}

func (e *SpecEnv) evalProve(x ast.Expr) Term {
	n := *e
	n.pol = +1
	n.lazyOK = e.ex.opts["lazy"] != "off"
	return n.evalBool(x)
}

func (e *SpecEnv) with(cur *State) *SpecEnv {
	n := *e
	n.cur = cur
	return &n
}

func (e *SpecEnv) bind(name string, v Value) *SpecEnv {
	n := *e
	n.vars = make(map[string]Value, len(e.vars)+1)
	for k, x := range e.vars {
		n.vars[k] = x
	}
	n.vars[name] = v
	return &n
}

func (e *SpecEnv) fail(x ast.Node, format string, a ...any) {
	panic(unsupported{fmt.Sprintf("contract expression: %s", fmt.Sprintf(format, a...))})
}

func (e *SpecEnv) evalBool(x ast.Expr) Term {
	v := e.eval(x)
	b, ok := v.(BoolV)
	if !ok {
		e.fail(x, "expected bool, got %s", describe(v))
	}
	return b.T
}

// evalInt evaluates to an Int-sorted term (mathematical value).
func (e *SpecEnv) evalInt(x ast.Expr) Term {
	v := e.eval(x)
	switch y := v.(type) {
	case IntV:
		return e.ex.idxTerm(y)
	case UntypedInt:
		return IntBig(y.N)
	}
	e.fail(x, "expected integer, got %s", describe(v))
	return Term{}
}

func (e *SpecEnv) lookup(name string) (Value, bool) {
	if v, ok := e.lookup1(name); ok {
		return v, true
	}
	if !e.calleeMode {
		if nn, ok := e.ex.renames[name]; ok {
			return e.lookup1(nn)
		}
	}
	return nil, false
}

func (e *SpecEnv) lookup1(name string) (Value, bool) {
	if v, ok := e.vars[name]; ok {
		return v, true
	}
	switch name {
	case "true":
		return BoolV{T: True}, true
	case "false":
		return BoolV{T: False}, true
	case "nil":
		return NilV{}, true
	case "result":
		if len(e.results) >= 1 {
			return e.results[0], true
		}
	}
	if strings.HasPrefix(name, "result") {
		if i, err := strconv.Atoi(name[6:]); err == nil && i < len(e.results) {
			return e.results[i], true
		}
	}
	if v, ok := e.cur.ghost[name]; ok {
		return v, true
	}
	if !e.calleeMode {
		// captured variable of the closure under verification: its current content
		if cell, ok := e.ex.fvCells[name]; ok {
			if v, ok := e.cur.cells[cell]; ok {
				return v, true
			}
		}
	}
	if !e.calleeMode {
		if v, ok := e.cur.names[name]; ok {
			return v, true
		}
		if e.nameFallback != nil {
			if v, ok := e.nameFallback.names[name]; ok {
				return v, true
			}
		}
	}
	// named constants of the package (nodeKind4, maxPrefixLen, ...)
	if obj := e.ex.prog.Pkg.Types.Scope().Lookup(name); obj != nil {
		if c, ok := obj.(*types.Const); ok {
			if n, ok2 := new(big.Int).SetString(c.Val().ExactString(), 10); ok2 {
				return UntypedInt{N: n}, true
			}
		}
	}
	return nil, false
}

func (e *SpecEnv) eval(x ast.Expr) Value {
	switch n := x.(type) {
	case *ast.ParenExpr:
		return e.eval(n.X)
	case *ast.Ident:
		v, ok := e.lookup(n.Name)
		if !ok {
			e.fail(x, "unknown name %q", n.Name)
		}
		return v
	case *ast.BasicLit:
		switch n.Kind {
		case token.INT:
			v, ok := new(big.Int).SetString(n.Value, 0)
			if !ok {
				e.fail(x, "bad int literal %s", n.Value)
			}
			return UntypedInt{N: v}
		case token.CHAR:
			r, _, _, err := strconv.UnquoteChar(n.Value[1:len(n.Value)-1], '\'')
			if err != nil {
				e.fail(x, "bad char literal")
			}
			return UntypedInt{N: big.NewInt(int64(r))}
		}
	case *ast.UnaryExpr:
		switch n.Op {
		case token.NOT:
			return BoolV{T: Not(e.flip().evalBool(n.X))}
		case token.SUB:
			v := e.eval(n.X)
			if u, ok := v.(UntypedInt); ok {
				return UntypedInt{N: new(big.Int).Neg(u.N)}
			}
			iv := v.(IntV)
			if iv.T.Sort == SInt {
				return IntV{T: ISub(IntC(0), iv.T), W: iv.W, Signed: true}
			}
			return IntV{T: App(iv.T.Sort, "bvneg", iv.T), W: iv.W, Signed: iv.Signed}
		case token.XOR:
			iv := e.eval(n.X).(IntV)
			return IntV{T: App(iv.T.Sort, "bvnot", iv.T), W: iv.W, Signed: iv.Signed}
		case token.AND:
			return e.addr(n.X)
		}
	case *ast.StarExpr:
		p := e.eval(n.X)
		return e.deref(p, x)
	case *ast.BinaryExpr:
		return e.binary(n)
	case *ast.SelectorExpr:
		return e.selector(n)
	case *ast.IndexExpr:
		return e.index(n)
	case *ast.CallExpr:
		return e.callExpr(n)
	}
	e.fail(x, "unsupported expression %T", x)
	return nil
}

func (e *SpecEnv) deref(p Value, x ast.Node) Value {
	switch q := p.(type) {
	case PtrV:
		return e.ex.loadPtr(e.cur, q)
	case RefV:
		if q.Typ != nil {
			return e.ex.loadStruct(e.cur, q.T, q.Typ, "")
		}
	}
	e.fail(x, "cannot dereference %s", describe(p))
	return nil
}

// addr evaluates &x.f style expressions to a pointer value.
func (e *SpecEnv) addr(x ast.Expr) Value {
	switch n := x.(type) {
	case *ast.SelectorExpr:
		base := e.eval(n.X)
		return e.fieldPtr(base, n.Sel.Name, x)
	case *ast.IndexExpr:
		base := e.lvalue(n.X)
		idx := e.evalInt(n.Index)
		if p, ok := base.(PtrV); ok {
			switch p.Kind {
			case PSlotArr:
				return PtrV{Kind: PSlot, Obj: p.Obj, Idx: IAdd(p.Idx, idx), Elem: e.ex.nodeRefType}
			case PByteArr:
				return PtrV{Kind: PByte, Obj: p.Obj, Idx: IAdd(p.Idx, idx), Elem: types.Typ[types.Uint8]}
			}
		}
	}
	e.fail(x, "cannot take address")
	return nil
}

// lvalue evaluates x.f without loading arrays (keeps array pointers).
func (e *SpecEnv) lvalue(x ast.Expr) Value {
	if sel, ok := x.(*ast.SelectorExpr); ok {
		base := e.eval(sel.X)
		return e.fieldPtr(base, sel.Sel.Name, x)
	}
	return e.eval(x)
}

func (e *SpecEnv) fieldPtr(base Value, name string, x ast.Node) Value {
	ex := e.ex
	switch b := base.(type) {
	case RefV:
		if b.Typ == nil {
			e.fail(x, "field %s of untyped reference", name)
		}
		st := b.Typ.Underlying().(*types.Struct)
		for i := 0; i < st.NumFields(); i++ {
			f := st.Field(i)
			if f.Name() == name {
				return ex.fieldAddrOf(e.cur, b, b.Typ, i)
			}
			// promoted fields through embedded structs
			if f.Embedded() {
				if est, ok := f.Type().Underlying().(*types.Struct); ok {
					for j := 0; j < est.NumFields(); j++ {
						if est.Field(j).Name() == name {
							inner := ex.fieldAddrOf(e.cur, b, b.Typ, i)
							return ex.fieldAddrOf(e.cur, inner, f.Type(), j)
						}
					}
				}
			}
		}
		e.fail(x, "no field %s in %s", name, b.Typ)
	case PtrV:
		if st, ok := ex.subst(b.Elem).Underlying().(*types.Struct); ok {
			for i := 0; i < st.NumFields(); i++ {
				if st.Field(i).Name() == name {
					return ex.fieldAddrOf(e.cur, b, b.Elem, i)
				}
			}
		}
	}
	return nil
}

func (e *SpecEnv) selector(n *ast.SelectorExpr) Value {
	base := e.eval(n.X)
	name := n.Sel.Name
	switch b := base.(type) {
	case StructV:
		if v, ok := b.Fields[name]; ok {
			return v
		}
		e.fail(n, "no field %s in struct value", name)
	case RefV, PtrV:
		if pb, ok := base.(PtrV); ok && (pb.Kind == PSlot || pb.Kind == PByte || pb.Kind == PField || pb.Kind == PByteArr || pb.Kind == PSlotArr) {
			switch name {
			case "obj":
				return RefV{T: pb.Obj}
			case "idx":
				return IntV{T: pb.Idx, W: 64, Signed: true}
			}
		}
		p := e.fieldPtr(base, name, n)
		if p == nil {
			e.fail(n, "cannot select %s from %s", name, describe(base))
		}
		pv := p.(PtrV)
		switch pv.Kind {
		case PSlotArr, PByteArr, PStruct:
			return pv // arrays / nested structs stay as locations; index or select further
		}
		return e.ex.loadPtr(e.cur, pv)
	case SliceV:
		switch name {
		case "len":
			return IntV{T: b.Len, W: 64, Signed: true}
		case "cap":
			return IntV{T: b.Cap, W: 64, Signed: true}
		case "obj":
			return RefV{T: b.Obj}
		case "off":
			return IntV{T: b.Off, W: 64, Signed: true}
		}
	}
	e.fail(n, "cannot select %s from %s", name, describe(base))
	return nil
}

func (e *SpecEnv) index(n *ast.IndexExpr) Value {
	base := e.lvalue(n.X)
	idx := e.evalInt(n.Index)
	ex := e.ex
	switch b := base.(type) {
	case PtrV:
		switch b.Kind {
		case PSlotArr:
			return e.cur.loadSlot(ex, b.Obj, IAdd(b.Idx, idx))
		case PByteArr:
			return e.cur.loadByte(ex, b.Obj, IAdd(b.Idx, idx))
		case PCell, PSub:
			v := ex.loadPtr(e.cur, b)
			return e.indexValue(v, idx, n)
		}
	case ArrV, SliceV:
		return e.indexValue(base, idx, n)
	}
	e.fail(n, "cannot index %s", describe(base))
	return nil
}

func (e *SpecEnv) indexValue(v Value, idx Term, n ast.Node) Value {
	ex := e.ex
	switch b := v.(type) {
	case ArrV:
		if c, ok := idx.IntConst(); ok {
			return b.Elems[c.Int64()]
		}
		res := b.Elems[len(b.Elems)-1]
		for i := len(b.Elems) - 2; i >= 0; i-- {
			res = ex.iteValue(Eq(idx, IntC(int64(i))), b.Elems[i], res)
		}
		return res
	case SliceV:
		return ex.sliceElem(e.cur, b, idx)
	}
	e.fail(n, "cannot index value %s", describe(v))
	return nil
}

// coerce adapts untyped literals / nil to the other operand.
func (e *SpecEnv) coerce(a, b Value) (Value, Value) {
	mk := func(u UntypedInt, like IntV) Value {
		if like.T.Sort == SInt {
			return IntV{T: IntBig(u.N), W: like.W, Signed: like.Signed}
		}
		return IntV{T: BVC(u.N, like.W), W: like.W, Signed: like.Signed}
	}
	if ua, ok := a.(UntypedInt); ok {
		if ib, ok := b.(IntV); ok {
			return mk(ua, ib), b
		}
		if ub, ok := b.(UntypedInt); ok {
			return IntV{T: IntBig(ua.N), W: 64, Signed: true}, IntV{T: IntBig(ub.N), W: 64, Signed: true}
		}
	}
	if ub, ok := b.(UntypedInt); ok {
		if ia, ok := a.(IntV); ok {
			return a, mk(ub, ia)
		}
	}
	// Int-sorted (quantifier index) vs BV-sorted: lift the BV side to Int
	if ia, ok := a.(IntV); ok {
		if ib, ok := b.(IntV); ok && ia.T.Sort != ib.T.Sort {
			return IntV{T: e.ex.idxTerm(ia), W: 64, Signed: true}, IntV{T: e.ex.idxTerm(ib), W: 64, Signed: true}
		}
	}
	return a, b
}

func (e *SpecEnv) binary(n *ast.BinaryExpr) Value {
	switch n.Op {
	case token.LAND:
		a := e.evalBool(n.X)
		if a.IsFalse() {
			return BoolV{T: False}
		}
		return BoolV{T: And(a, e.evalBool(n.Y))}
	case token.LOR:
		a := e.evalBool(n.X)
		if a.IsTrue() {
			return BoolV{T: True}
		}
		return BoolV{T: Or(a, e.evalBool(n.Y))}
	}
	sub := e
	if n.Op == token.EQL || n.Op == token.NEQ {
		sub = e.nopol()
	}
	a, b := e.coerce(sub.eval(n.X), sub.eval(n.Y))
	// struct equality (nodeRef == nodeRef)
	if sa, ok := a.(StructV); ok {
		if sb, ok := b.(StructV); ok && (n.Op == token.EQL || n.Op == token.NEQ) {
			var cs []Term
			for _, f := range sa.Names {
				x, y := e.coerce(sa.Fields[f], sb.Fields[f])
				cs = append(cs, e.eqValues(x, y, n))
			}
			t := And(cs...)
			if n.Op == token.NEQ {
				t = Not(t)
			}
			return BoolV{T: t}
		}
	}
	if n.Op == token.EQL || n.Op == token.NEQ {
		t := e.eqValues(a, b, n)
		if n.Op == token.NEQ {
			t = Not(t)
		}
		return BoolV{T: t}
	}
	ia, ok1 := a.(IntV)
	ib, ok2 := b.(IntV)
	if !ok1 || !ok2 {
		e.fail(n, "operator %s on %s, %s", n.Op, describe(a), describe(b))
	}
	// arithmetic in specs is mathematical in Int sort (no overflow obligations) and wrapping in BV sort
	if ia.T.Sort == SInt {
		switch n.Op {
		case token.ADD:
			return IntV{T: IAdd(ia.T, ib.T), W: 64, Signed: true}
		case token.SUB:
			return IntV{T: ISub(ia.T, ib.T), W: 64, Signed: true}
		case token.MUL:
			return IntV{T: IMul(ia.T, ib.T), W: 64, Signed: true}
		case token.QUO:
			return IntV{T: App(SInt, "div", ia.T, ib.T), W: 64, Signed: true}
		case token.REM:
			return IntV{T: App(SInt, "mod", ia.T, ib.T), W: 64, Signed: true}
		case token.LSS:
			return BoolV{T: ICmp("<", ia.T, ib.T)}
		case token.LEQ:
			return BoolV{T: ICmp("<=", ia.T, ib.T)}
		case token.GTR:
			return BoolV{T: ICmp(">", ia.T, ib.T)}
		case token.GEQ:
			return BoolV{T: ICmp(">=", ia.T, ib.T)}
		}
		e.fail(n, "operator %s on mathematical integers", n.Op)
	}
	st := &State{pcSet: map[string]bool{}}
	v := e.ex.intBinop(st, &Frame{fn: e.ex.fn}, n.Op, ia, ib, specPos{})
	return v
}

type specPos struct{ ssa.Instruction }

func (specPos) Pos() token.Pos { return token.NoPos }

func (e *SpecEnv) eqValues(a, b Value, n ast.Node) Term {
	switch x := a.(type) {
	case IntV:
		if y, ok := b.(IntV); ok {
			if x.T.Sort != y.T.Sort {
				return Eq(e.ex.idxTerm(x), e.ex.idxTerm(y))
			}
			return Eq(x.T, y.T)
		}
	case BoolV:
		if y, ok := b.(BoolV); ok {
			return Eq(x.T, y.T)
		}
	case RefV:
		switch y := b.(type) {
		case RefV:
			return Eq(x.T, y.T)
		case NilV:
			return Eq(x.T, Null)
		}
	case NilV:
		if y, ok := b.(RefV); ok {
			return Eq(y.T, Null)
		}
		if _, ok := b.(NilV); ok {
			return True
		}
		if y, ok := b.(PtrV); ok {
			return ptrIsNil(e.cur, y)
		}
	case OpaqueV:
		if y, ok := b.(OpaqueV); ok {
			return Eq(x.T, y.T)
		}
	case FloatV:
		if y, ok := b.(FloatV); ok {
			return Eq(x.Bits, y.Bits)
		}
	case PtrV:
		if y, ok := b.(PtrV); ok && x.Kind == y.Kind {
			switch x.Kind {
			case PSlot, PByte:
				return And(Eq(x.Obj, y.Obj), Eq(x.Idx, y.Idx))
			case PField:
				return And(Eq(x.Obj, y.Obj), boolT(x.Field == y.Field))
			}
		}
		if _, ok := b.(NilV); ok {
			return ptrIsNil(e.cur, x)
		}
	}
	e.fail(n, "cannot compare %s with %s", describe(a), describe(b))
	return Term{}
}

// ---------------------------------------------------------------------------

func (e *SpecEnv) callExpr(n *ast.CallExpr) Value {
	ex := e.ex
	fname := ""
	if id, ok := n.Fun.(*ast.Ident); ok {
		fname = id.Name
	}
	arg := func(i int) ast.Expr {
		if i >= len(n.Args) {
			e.fail(n, "%s: missing argument %d", fname, i)
		}
		return n.Args[i]
	}
	switch fname {
	case "prev": // prev(expr): expr with the loop variables bound to their values at the head of this iteration
		if e.prevNames == nil {
			e.fail(n, "prev() outside step_ensures")
		}
		sub := *e
		sub.vars = make(map[string]Value, len(e.vars)+len(e.prevNames))
		for k, v := range e.vars {
			sub.vars[k] = v
		}
		for k, v := range e.prevNames {
			sub.vars[k] = v
		}
		for old, cur := range ex.renames {
			if v, ok := e.prevNames[cur]; ok {
				sub.vars[old] = v
			}
		}
		return sub.eval(arg(0))
	case "old":
		if e.old == nil {
			e.fail(n, "old() without an entry state")
		}
		o := e.with(e.old)
		if o.nameFallback == nil {
			o.nameFallback = e.cur
		}
		return o.eval(arg(0))
	case "implies":
		a := e.flip().evalBool(arg(0))
		if a.IsFalse() {
			return BoolV{T: True} // guarded expression is not evaluated
		}
		sub := *e
		sub.guard = append(append([]Term{}, e.guard...), a)
		return BoolV{T: Implies(a, sub.evalBool(arg(1)))}
	case "iff":
		return BoolV{T: Eq(e.nopol().evalBool(arg(0)), e.nopol().evalBool(arg(1)))}
	case "ite":
		c := e.nopol().evalBool(arg(0))
		if c.IsTrue() {
			return e.eval(arg(1))
		}
		if c.IsFalse() {
			return e.eval(arg(2))
		}
		a, b := e.coerce(e.eval(arg(1)), e.eval(arg(2)))
		if ua, ok := a.(UntypedInt); ok {
			a = IntV{T: IntBig(ua.N), W: 64, Signed: true}
		}
		if ub, ok := b.(UntypedInt); ok {
			b = IntV{T: IntBig(ub.N), W: 64, Signed: true}
		}
		if _, ok := a.(NilV); ok {
			a = RefV{T: Null}
		}
		if _, ok := b.(NilV); ok {
			b = RefV{T: Null}
		}
		if ia, ok := a.(IntV); ok {
			if ib, ok := b.(IntV); ok && ia.T.Sort != ib.T.Sort {
				a = IntV{T: ex.idxTerm(ia), W: 64, Signed: true}
				b = IntV{T: ex.idxTerm(ib), W: 64, Signed: true}
			}
		}
		return ex.iteValue(c, a, b)
	case "forall", "exists":
		return e.quant(n, fname)
	case "forallp":
		// probe-forall: universally quantified clause handled by generalisation on a constant.
		// Proved for the arbitrary-but-fixed probe constant (valid for all values, since nothing
		// is assumed about the probe but its range); assumed at the probe and at every
		// byte-typed variable in scope. Keeps view clauses quantifier-free.
		name := arg(0).(*ast.Ident).Name
		lo, hi := e.evalInt(arg(1)), e.evalInt(arg(2))
		probe := ex.st.Const("probe."+name, SInt)
		inst := func(t Term) Term {
			rng := And(ICmp("<=", lo, t), ICmp("<", t, hi))
			var side []Term
			restore := e.collectInto(&side)
			body := e.bind(name, IntV{T: t, W: 64, Signed: true}).evalBool(arg(3))
			restore()
			if e.pol < 0 {
				return Implies(rng, And(append(side, body)...))
			}
			return Implies(And(append([]Term{rng}, side...)...), body)
		}
		if e.pol > 0 {
			return BoolV{T: inst(probe)}
		}
		if e.pol == 0 {
			e.fail(n, "forallp under unknown polarity")
		}
		parts := []Term{inst(probe)}
		seen := map[string]bool{probe.S: true}
		var names []string
		for k := range e.vars {
			names = append(names, k)
		}
		sortStrings(names)
		for _, k := range names {
			if iv, ok := e.vars[k].(IntV); ok && iv.W == 8 && iv.T.Sort == SInt && !seen[iv.T.S] {
				seen[iv.T.S] = true
				parts = append(parts, inst(iv.T))
			}
		}
		return BoolV{T: And(parts...)}
	case "cntP", "cntNZ":
		// counting spec functions over a node's children / keys row (see lemmas.go)
		loc, ok := e.lvalue(arg(0)).(PtrV)
		nT := e.evalInt(arg(1))
		if !ok || (loc.Kind != PSlotArr && loc.Kind != PByteArr) {
			e.fail(n, "%s: first argument must be an array field of a node", fname)
		}
		if c, okc := loc.Idx.IntConst(); !okc || c.Sign() != 0 {
			e.fail(n, "%s: array must start at offset 0 of its row", fname)
		}
		var row Term
		if fname == "cntP" {
			if loc.Kind != PSlotArr {
				e.fail(n, "cntP needs an array of nodeRef")
			}
			row = e.cur.sel(e.cur.H(ex, "SP", ex.spSort()), loc.Obj)
		} else {
			if loc.Kind != PByteArr || ex.mode != ModeInt {
				e.fail(n, "cntNZ needs a byte array (int mode)")
			}
			row = e.cur.sel(e.cur.H(ex, "B", ex.bSort()), loc.Obj)
		}
		return IntV{T: App(SInt, fname, row, nT), W: 64, Signed: true}
	case "count":
		// count(i, lo, hi, cond): number of i in [lo,hi) with cond(i) (constant bounds; a finite sum)
		name := arg(0).(*ast.Ident).Name
		lo, okl := e.evalInt(arg(1)).IntConst()
		hi, okh := e.evalInt(arg(2)).IntConst()
		if !okl || !okh || hi.Int64()-lo.Int64() > 256 {
			e.fail(n, "count: bounds must be small constants")
		}
		var parts []Term
		for i := lo.Int64(); i < hi.Int64(); i++ {
			c := e.bind(name, UntypedInt{N: big.NewInt(i)}).evalBool(arg(3))
			parts = append(parts, Ite(c, IntC(1), IntC(0)))
		}
		if len(parts) == 0 {
			return IntV{T: IntC(0), W: 64, Signed: true}
		}
		return IntV{T: App(SInt, "+", append(parts, IntC(0))...), W: 64, Signed: true}
	case "first":
		// first(i, lo, hi, cond): least i in [lo,hi) with cond(i), else -1 (constant bounds)
		name := arg(0).(*ast.Ident).Name
		lo, okl := e.evalInt(arg(1)).IntConst()
		hi, okh := e.evalInt(arg(2)).IntConst()
		if !okl || !okh || hi.Int64()-lo.Int64() > 256 {
			e.fail(n, "first: bounds must be small constants")
		}
		res := IntC(-1)
		for i := hi.Int64() - 1; i >= lo.Int64(); i-- {
			c := e.bind(name, UntypedInt{N: big.NewInt(i)}).evalBool(arg(3))
			res = Ite(c, IntC(i), res)
		}
		return IntV{T: res, W: 64, Signed: true}
	case "reveal":
		// reveal(o): instantiate the lazily kept universals at o
		r := e.refTerm(e.eval(arg(0)), n)
		e.cur.instantiateAt(ex, r)
		return BoolV{T: True}
	case "forallref", "existsref":
		name := arg(0).(*ast.Ident).Name
		if fname == "forallref" && e.lazyOK && e.pol < 0 && e.cur.collect == nil {
			// assumed universal over objects: keep it lazily (see lazyU)
			lazyCounter++
			snapCur := e.cur.clone()
			snapOld := snapCur
			if e.old != nil && e.old != e.cur {
				snapOld = e.old.clone()
			}
			envc := *e
			envc.cur, envc.old = snapCur, snapOld
			envc.guard = nil
			envc.lazyOK = false
			lu := &lazyU{id: lazyCounter, name: name, body: arg(1), env: &envc, guard: And(e.guard...)}
			e.cur.lazy = append(e.cur.lazy[:len(e.cur.lazy):len(e.cur.lazy)], lu)
			return BoolV{T: True}
		}
		if fname == "forallref" && e.lazyOK && e.pol > 0 && e.cur.collect == nil {
			// goal: forall o. G(o) is proved by cases: o is one of the objects the path has
			// written (or that a callee's frame lists), or it is none of them. In the first case
			// G is evaluated at that very term; in the second at a skolem constant under the
			// disequalities, so that heap reads simplify to the pre-state syntactically.
			touched := e.cur.touchedObjects(ex)
			var parts []Term
			for _, x := range touched {
				xt := Term{x, SRef}
				e.cur.instantiateAt(ex, xt)
				part := e.bind(name, RefV{T: xt}).evalBool(arg(1))
				lbl := x
				if len(lbl) > 40 {
					lbl = fmt.Sprintf("obj#%d", len(parts)+1)
				}
				ex.caseLabels[part.S] = name + "=" + lbl
				parts = append(parts, part)
			}
			sk := ex.st.Fresh("sk."+name, SRef)
			e.cur.instantiateAt(ex, sk)
			other := e.cur.clone()
			other.lazy, other.lazyDone = e.cur.lazy, e.cur.lazyDone
			var neqs []Term
			for _, x := range touched {
				neqs = append(neqs, Neq(sk, Term{x, SRef}))
			}
			base := len(other.pc)
			other.assume(And(neqs...))
			sub := e.bind(name, RefV{T: sk})
			sub.cur = other
			if e.old == e.cur {
				sub.old = other
			}
			g := sub.evalBool(arg(1))
			// facts learnt while evaluating in the side state hold under the disequalities
			hyp := And(other.pc[base:]...)
			oth := Implies(hyp, g)
			ex.caseLabels[oth.S] = name + "=other"
			parts = append(parts, oth)
			return BoolV{T: And(parts...)}
		}
		quantCounter++
		v := Term{fmt.Sprintf("q!%s!%d", name, quantCounter), SRef}
		var side []Term
		restore := e.collectInto(&side)
		body := e.bind(name, RefV{T: v}).evalBool(arg(1))
		restore()
		facts := And(side...)
		if fname == "existsref" {
			if e.pol < 0 {
				return BoolV{T: Term{fmt.Sprintf("(exists ((%s Ref)) %s)", v.S, And(facts, body).S), SBool}}
			}
			return BoolV{T: Term{fmt.Sprintf("(exists ((%s Ref)) %s)", v.S, body.S), SBool}}
		}
		switch {
		case e.pol > 0:
			return BoolV{T: Term{fmt.Sprintf("(forall ((%s Ref)) %s)", v.S, Implies(facts, body).S), SBool}}
		case e.pol < 0:
			return BoolV{T: Term{fmt.Sprintf("(forall ((%s Ref)) %s)", v.S, And(facts, body).S), SBool}}
		}
		return BoolV{T: Term{fmt.Sprintf("(forall ((%s Ref)) %s)", v.S, body.S), SBool}}
	case "lane":
		return e.lane(e.eval(arg(0)), e.eval(arg(1)), n)
	case "len":
		switch x := e.eval(arg(0)).(type) {
		case SliceV:
			return IntV{T: x.Len, W: 64, Signed: true}
		case ArrV:
			return UntypedInt{N: big.NewInt(int64(len(x.Elems)))}
		}
	case "cap":
		if x, ok := e.eval(arg(0)).(SliceV); ok {
			return IntV{T: x.Cap, W: 64, Signed: true}
		}
	case "int", "int64", "uint", "uint64", "uint32", "int32", "uint16", "int16", "uint8", "int8", "byte":
		v := e.eval(arg(0))
		if u, ok := v.(UntypedInt); ok {
			return u
		}
		iv := v.(IntV)
		w, sg, _ := intInfo(types.Universe.Lookup(fname).Type())
		if iv.T.Sort == SInt {
			return IntV{T: iv.T, W: w, Signed: sg}
		}
		st := &State{pcSet: map[string]bool{}}
		return ex.convInt(st, &Frame{fn: ex.fn}, iv, w, sg, specPos{})
	case "mathint": // mathematical value of a machine integer
		v := e.eval(arg(0))
		if u, ok := v.(UntypedInt); ok {
			return IntV{T: IntBig(u.N), W: 64, Signed: true}
		}
		return IntV{T: ex.idxTerm(v.(IntV)), W: 64, Signed: true}
	case "min":
		a, b := e.coerce(e.eval(arg(0)), e.eval(arg(1)))
		ia, ib := a.(IntV), b.(IntV)
		return IntV{T: Ite(ICmp("<", ex.idxTerm(ia), ex.idxTerm(ib)), ia.T, ib.T), W: ia.W, Signed: ia.Signed}
	case "allocated":
		r := e.refTerm(e.eval(arg(0)), n)
		return BoolV{T: Select(e.cur.H(ex, "alloc", ArrSort(SRef, SBool)), r)}
	case "fresh": // allocated now, not allocated in the old state
		r := e.refTerm(e.eval(arg(0)), n)
		return BoolV{T: And(Select(e.cur.H(ex, "alloc", ArrSort(SRef, SBool)), r), Not(Select(e.old.H(ex, "alloc", ArrSort(SRef, SBool)), r)))}
	case "pooled":
		r := e.refTerm(e.eval(arg(0)), n)
		return BoolV{T: Select(e.cur.H(ex, "pooled", ArrSort(SRef, SBool)), r)}
	case "pooledIs":
		// pooledIs(n, c): the ghost set of pooled nodes is the old set, plus n if c holds
		nT := e.refTerm(e.eval(arg(0)), n)
		c := e.nopol().evalBool(arg(1))
		before := e.old.H(ex, "pooled", ArrSort(SRef, SBool))
		after := e.cur.H(ex, "pooled", ArrSort(SRef, SBool))
		return BoolV{T: Eq(after, Ite(c, Store(before, nT, True), before))}
	case "calls":
		// calls("suffix"): number of (inlined) calls on this path to functions whose name ends with suffix
		suffix := strings.Trim(exprString(arg(0)), "\"")
		if bl, ok := arg(0).(*ast.BasicLit); ok {
			suffix = strings.Trim(bl.Value, "\"")
		}
		total := int64(0)
		for k, v := range e.cur.ghost {
			if strings.HasPrefix(k, "calls.") && strings.HasSuffix(k, suffix) {
				if c, ok := v.(IntV).T.IntConst(); ok {
					total += c.Int64()
				}
			}
		}
		return IntV{T: IntC(total), W: 64, Signed: true}
	case "atype":
		r := e.refTerm(e.eval(arg(0)), n)
		return IntV{T: atypeOf(ex.st, r), W: 64, Signed: true}
	case "last", "lastarg": // last("f"): result of the most recent call of the abstract function f on this path; lastarg("f", i): its i-th argument
		name := strings.Trim(exprString(arg(0)), "\"")
		key := "last." + name
		if fname == "lastarg" {
			key = fmt.Sprintf("lastarg%s.%s", exprString(arg(1)), name)
		}
		if v, ok := e.cur.ghost[key]; ok {
			return v
		}
		if v, ok := e.cur.ghost[strings.Replace(key, ".", ".p.", 1)]; ok { // function-typed parameters / captures are named p.<name>
			return v
		}
		var have []string
		for k := range e.cur.ghost {
			if strings.HasPrefix(k, "last") {
				have = append(have, k)
			}
		}
		e.fail(n, "no call of %s on this path (have %v)", name, have)
	case "defined": // defined(x): the local x has been assigned on this path (constant)
		if id, ok := arg(0).(*ast.Ident); ok {
			_, found := e.lookup(id.Name)
			return BoolV{T: boolT(found)}
		}
		e.fail(n, "defined() takes a name")
	case "ret": // ordinal (source order, 1-based) of the return statement the path ends in
		if e.fr == nil {
			e.fail(n, "ret() outside a postcondition")
		}
		return UntypedInt{N: big.NewInt(int64(ex.returnOrdinal(e.fr)))}
	case "stopped": // ghost: yield has returned false (iterator protocol)
		if b, ok := e.cur.ghost["stopped"].(BoolV); ok {
			return b
		}
		return BoolV{T: False}
	case "scratchLen": // bytes currently held by a collate.Buffer (ghost)
		r := e.refTerm(e.eval(arg(0)), n)
		return IntV{T: Select(e.cur.H(ex, "collateBuf.len", ArrSort(SRef, SInt)), r), W: 64, Signed: true}
	case "blen": // extent (in bytes) of a byte object
		r := e.refTerm(e.eval(arg(0)), n)
		return IntV{T: Select(e.cur.H(ex, "blen", ArrSort(SRef, SInt)), r), W: 64, Signed: true}
	case "inT":
		r := e.refTerm(e.eval(arg(0)), n)
		return BoolV{T: inTOf(ex.st, r)}
	case "leafT":
		return IntV{T: ex.st.Const("leafT", SInt), W: 64, Signed: true}
	case "typeid":
		name := arg(0).(*ast.Ident).Name
		l := ex.layoutByName(name)
		if l == nil {
			e.fail(n, "typeid: unknown type %s", name)
		}
		return UntypedInt{N: big.NewInt(int64(l.TypeID))}
	case "as": // as(node4, p): view reference p as *node4
		name := arg(0).(*ast.Ident).Name
		obj := ex.prog.Pkg.Types.Scope().Lookup(name)
		if obj == nil {
			e.fail(n, "as: unknown type %s", name)
		}
		r := e.refTerm(e.eval(arg(1)), n)
		return RefV{T: r, Typ: obj.Type()}
	case "frame":
		// frame(o1, o2, ...): every heap array is unchanged on pre-existing objects other than o1..on
		var objs []Term
		for _, a := range n.Args {
			objs = append(objs, e.refTerm(e.eval(a), n))
		}
		return BoolV{T: e.frame(objs)}
	case "frameExcept":
		// frameExcept("A", ...): frame() for every heap array except the named ones
		skip := map[string]bool{}
		for _, a := range n.Args {
			if bl, ok := a.(*ast.BasicLit); ok {
				skip[ex.canonHeap(strings.Trim(bl.Value, "\""))] = true
			}
		}
		saved := e.assigned
		var names []string
		for h := range ex.heapSorts {
			if !skip[h] && !coveredBy(skip, h) {
				names = append(names, h)
			}
		}
		e2 := *e
		e2.assigned = names
		_ = saved
		return BoolV{T: e2.frame(nil)}
	case "frameSlot":
		// frameSlot(p): in the object holding slot *p nothing but that slot changed
		pv, ok := e.eval(arg(0)).(PtrV)
		if !ok || pv.Kind != PSlot {
			e.fail(n, "frameSlot: argument must be a *nodeRef")
		}
		return BoolV{T: e.frameSlot(pv)}
	case "sameObjExcept":
		// sameObjExcept(o, "A", "B", ...): every heap array agrees with the old state at object o,
		// except the named arrays
		o := e.refTerm(e.eval(arg(0)), n)
		skip := map[string]bool{}
		for _, a := range n.Args[1:] {
			skip[ex.canonHeap(strings.Trim(exprString(a), "\""))] = true
		}
		var names []string
		for h := range ex.heapSorts {
			names = append(names, h)
		}
		sortStrings(names)
		var parts []Term
		for _, h := range names {
			srt := ex.heapSorts[h]
			if skip[h] || h == "alloc" || h == "atype" || h == "pooled" || srt == "" || indexSort(srt) != SRef {
				continue
			}
			before, after := e.old.H(ex, h, srt), e.cur.H(ex, h, srt)
			if before.S != after.S {
				parts = append(parts, Eq(e.cur.sel(after, o), e.old.sel(before, o)))
			}
		}
		return BoolV{T: And(parts...)}
	case "sameBytes":
		// sameBytes(o, lo, hi): bytes [lo,hi) of object o are unchanged
		o := e.refTerm(e.eval(arg(0)), n)
		lo, hi := e.evalInt(arg(1)), e.evalInt(arg(2))
		before, after := e.old.H(ex, "B", ex.bSort()), e.cur.H(ex, "B", ex.bSort())
		if before.S == after.S {
			return BoolV{T: True}
		}
		quantCounter++
		v := Term{fmt.Sprintf("q!sb!%d", quantCounter), SInt}
		body := Implies(And(ICmp("<=", lo, v), ICmp("<", v, hi)), Eq(Select(e.cur.sel(after, o), v), Select(e.old.sel(before, o), v)))
		return BoolV{T: Term{fmt.Sprintf("(forall ((%s Int)) %s)", v.S, body.S), SBool}}
	case "unchanged":
		// unchanged(name): heap array 'name' is identical to its old version
		name := strings.Trim(exprString(arg(0)), "\"")
		srt := ex.heapSorts[name]
		if srt == "" {
			return BoolV{T: True}
		}
		return BoolV{T: Eq(e.cur.H(ex, name, srt), e.old.H(ex, name, srt))}
	case "mkslice": // mkslice(obj, off, len): the byte slice [off, off+len) of object obj
		o := e.refTerm(e.eval(arg(0)), n)
		off, ln := e.evalInt(arg(1)), e.evalInt(arg(2))
		return SliceV{Kind: SlBytes, Obj: o, Off: off, Len: ln, Cap: ln, Elem: types.Typ[types.Uint8]}
	case "bytesEq": // bytesEq(a, b): slices equal as byte strings
		a, b := e.eval(arg(0)).(SliceV), e.eval(arg(1)).(SliceV)
		return BoolV{T: ex.bytesEqual(e.cur, a, b)}
	case "lexLess":
		a, b := e.eval(arg(0)).(SliceV), e.eval(arg(1)).(SliceV)
		return BoolV{T: ex.lexLess(e.cur, a, b)}
	case "fplt", "fpeq", "isNaN", "isInf", "isNeg", "isZero":
		return e.fpBuiltin(fname, n)
	case "slt": // signed less-than on same-width bit-vectors / ints
		a, b := e.coerce(e.eval(arg(0)), e.eval(arg(1)))
		ia, ib := a.(IntV), b.(IntV)
		if ia.T.Sort == SInt {
			return BoolV{T: ICmp("<", ia.T, ib.T)}
		}
		return BoolV{T: App(SBool, "bvslt", ia.T, ib.T)}
	case "ult":
		a, b := e.coerce(e.eval(arg(0)), e.eval(arg(1)))
		ia, ib := a.(IntV), b.(IntV)
		if ia.T.Sort == SInt {
			return BoolV{T: ICmp("<", ia.T, ib.T)}
		}
		return BoolV{T: App(SBool, "bvult", ia.T, ib.T)}
	case "bits": // raw bits of a float
		f := e.eval(arg(0)).(FloatV)
		return IntV{T: f.Bits, W: f.W}
	}
	if sp := ex.prog.CF.Specs[fname]; sp != nil {
		var args []Value
		for _, a := range n.Args {
			args = append(args, e.eval(a))
		}
		return e.callSpec(sp, args)
	}
	e.fail(n, "unknown spec function %q", exprString(n.Fun))
	return nil
}

func exprString(x ast.Expr) string {
	switch n := x.(type) {
	case *ast.Ident:
		return n.Name
	case *ast.BasicLit:
		return n.Value
	case *ast.SelectorExpr:
		return exprString(n.X) + "." + n.Sel.Name
	}
	return fmt.Sprintf("%T", x)
}

func (e *SpecEnv) callSpec(sp *SpecFn, args []Value) Value {
	if len(args) != len(sp.Params) {
		panic(unsupported{fmt.Sprintf("spec %s: %d arguments for %d parameters", sp.Name, len(args), len(sp.Params))})
	}
	n := *e
	n.vars = make(map[string]Value, len(e.vars)+len(args))
	for k, v := range e.vars {
		n.vars[k] = v
	}
	for i, p := range sp.Params {
		n.vars[p] = args[i]
	}
	return n.eval(sp.Body)
}

func (e *SpecEnv) refTerm(v Value, n ast.Node) Term {
	switch x := v.(type) {
	case RefV:
		return x.T
	case NilV:
		return Null
	case PtrV:
		if x.Kind == PStruct || x.Kind == PSlot || x.Kind == PByte || x.Kind == PField {
			return x.Obj
		}
	case SliceV:
		return x.Obj
	}
	e.fail(n, "expected a reference, got %s", describe(v))
	return Term{}
}

func (e *SpecEnv) quant(n *ast.CallExpr, kind string) Value {
	if len(n.Args) != 4 {
		e.fail(n, "%s(i, lo, hi, body)", kind)
	}
	name := n.Args[0].(*ast.Ident).Name
	lo := e.evalInt(n.Args[1])
	hi := e.evalInt(n.Args[2])
	l, okl := lo.IntConst()
	h, okh := hi.IntConst()
	if okl && okh && new(big.Int).Sub(h, l).Cmp(big.NewInt(40)) <= 0 {
		var parts []Term
		for i := new(big.Int).Set(l); i.Cmp(h) < 0; i.Add(i, bigOne) {
			b := e.bind(name, UntypedInt{N: new(big.Int).Set(i)}).evalBool(n.Args[3])
			parts = append(parts, b)
		}
		if kind == "forall" {
			return BoolV{T: And(parts...)}
		}
		return BoolV{T: Or(parts...)}
	}
	quantCounter++
	v := Term{fmt.Sprintf("q!%s!%d", name, quantCounter), SInt}
	var side []Term
	restore := e.collectInto(&side)
	body := e.bind(name, IntV{T: v, W: 64, Signed: true}).evalBool(n.Args[3])
	restore()
	// facts about loaded values (machine ranges, allocation) are valid for every index:
	// hypotheses under forall, conjuncts under exists
	rng := And(ICmp("<=", lo, v), ICmp("<", v, hi))
	facts := And(side...)
	// the side facts are valid for every index (type invariants of the heap): they may be
	// used as hypotheses where the formula is proved and as conjuncts where it is assumed
	univ := kind == "forall"
	var inner Term
	switch {
	case univ && e.pol > 0:
		inner = Implies(And(rng, facts), body)
	case univ && e.pol < 0:
		inner = Implies(rng, And(facts, body))
	case univ:
		inner = Implies(rng, body)
	case e.pol < 0:
		inner = And(rng, facts, body)
	default:
		inner = And(rng, body)
	}
	if univ {
		return BoolV{T: Term{fmt.Sprintf("(forall ((%s Int)) %s)", v.S, inner.S), SBool}}
	}
	return BoolV{T: Term{fmt.Sprintf("(exists ((%s Int)) %s)", v.S, inner.S), SBool}}
}

// collectInto redirects assumptions made while evaluating a quantifier body.
func (e *SpecEnv) collectInto(side *[]Term) func() {
	c1, c2 := e.cur.collect, (*[]Term)(nil)
	e.cur.collect = side
	if e.old != nil && e.old != e.cur {
		c2 = e.old.collect
		e.old.collect = side
	}
	return func() {
		e.cur.collect = c1
		if e.old != nil && e.old != e.cur {
			e.old.collect = c2
		}
	}
}

// lane(w, i): byte i (0 = least significant) of a packed word.
func (e *SpecEnv) lane(w, i Value, n ast.Node) Value {
	wv, ok := w.(IntV)
	if !ok {
		e.fail(n, "lane: first argument must be an integer")
	}
	var idx Term
	switch x := i.(type) {
	case UntypedInt:
		idx = IntBig(x.N)
	case IntV:
		idx = e.ex.idxTerm(x)
	}
	one := func(k int) Term {
		if wv.T.Sort == SInt {
			d := new(big.Int).Lsh(bigOne, uint(8*k))
			return App(SInt, "mod", App(SInt, "div", wv.T, IntBig(d)), IntC(256))
		}
		return App(BVSort(8), fmt.Sprintf("(_ extract %d %d)", 8*k+7, 8*k), wv.T)
	}
	nl := wv.W / 8
	if c, ok := idx.IntConst(); ok {
		if c.Sign() < 0 || int(c.Int64()) >= nl {
			// out-of-range lanes (only meaningful under a guard) are an unconstrained value
			return IntV{T: e.ex.st.Const("lane.oob."+sanitize(e.ex.byteSort()), e.ex.byteSort()), W: 8}
		}
		return IntV{T: one(int(c.Int64())), W: 8}
	}
	res := one(nl - 1)
	for k := nl - 2; k >= 0; k-- {
		res = Ite(Eq(idx, IntC(int64(k))), one(k), res)
	}
	return IntV{T: res, W: 8}
}

// frame: all known heap arrays agree with the old state on objects that were
// allocated in the old state and are not among objs.
func (e *SpecEnv) frame(objs []Term) Term {
	ex := e.ex
	var names []string
	if e.assigned != nil {
		names = e.assigned
	} else {
		for h := range ex.heapSorts {
			names = append(names, h)
		}
	}
	sortStrings(names)
	oldAl := e.old.H(ex, "alloc", ArrSort(SRef, SBool))
	var parts []Term
	for _, h := range names {
		if h == "alloc" || h == "atype" || h == "pooled" || strings.HasPrefix(h, "collateBuf.") {
			// collateBuf.*: ghost state of the codec's collate.Buffer - scratch of the codec, like
			// its src field, outside what frame() speaks about (stated with C15/C17)
			continue
		}
		srt := ex.heapSorts[h]
		if srt == "" || indexSort(srt) != SRef {
			continue
		}
		before := e.old.H(ex, h, srt)
		after := e.cur.H(ex, h, srt)
		if before.S == after.S {
			continue
		}
		quantCounter++
		r := Term{fmt.Sprintf("fr!r!%d", quantCounter), SRef}
		var ne []Term
		for _, o := range objs {
			ne = append(ne, Neq(r, o))
		}
		body := Implies(And(append([]Term{Select(oldAl, r)}, ne...)...), Eq(Select(after, r), Select(before, r)))
		parts = append(parts, Term{fmt.Sprintf("(forall ((%s Ref)) (! %s :pattern (%s)))", r.S, body.S, Select(after, r).S), SBool})
	}
	return And(parts...)
}

func sortStrings(s []string) {
	for i := 1; i < len(s); i++ {
		for j := i; j > 0 && s[j] < s[j-1]; j-- {
			s[j], s[j-1] = s[j-1], s[j]
		}
	}
}

func (e *SpecEnv) fpBuiltin(name string, n *ast.CallExpr) Value {
	f := func(i int) Term { return toFP(e.eval(n.Args[i]).(FloatV)) }
	switch name {
	case "fplt":
		return BoolV{T: App(SBool, "fp.lt", f(0), f(1))}
	case "fpeq":
		return BoolV{T: App(SBool, "fp.eq", f(0), f(1))}
	case "isNaN":
		return BoolV{T: App(SBool, "fp.isNaN", f(0))}
	case "isInf":
		return BoolV{T: App(SBool, "fp.isInfinite", f(0))}
	case "isNeg":
		return BoolV{T: App(SBool, "fp.isNegative", f(0))}
	case "isZero":
		return BoolV{T: App(SBool, "fp.isZero", f(0))}
	}
	return nil
}

// frameSlot: every heap array agrees with the old state at object p.Obj, except the
// nodeRef slot p.Idx of that object.
func (e *SpecEnv) frameSlot(p PtrV) Term {
	ex := e.ex
	var names []string
	for h := range ex.heapSorts {
		names = append(names, h)
	}
	sortStrings(names)
	var parts []Term
	for _, h := range names {
		if h == "alloc" || h == "atype" || h == "pooled" {
			continue
		}
		srt := ex.heapSorts[h]
		if srt == "" || indexSort(srt) != SRef {
			continue
		}
		before := e.old.H(ex, h, srt)
		after := e.cur.H(ex, h, srt)
		if before.S == after.S {
			continue
		}
		if h == "SP" || h == "ST" {
			rowB, rowA := Select(before, p.Obj), Select(after, p.Obj)
			parts = append(parts, Eq(rowA, Store(rowB, p.Idx, Select(rowA, p.Idx))))
			continue
		}
		parts = append(parts, Eq(Select(after, p.Obj), Select(before, p.Obj)))
	}
	return And(parts...)
}
