package main

import (
	"bytes"
	"context"
	"crypto/sha256"
	"encoding/hex"
	"fmt"
	"os"
	"os/exec"
	"path/filepath"
	"regexp"
	"runtime"
	"sort"
	"strconv"
	"strings"
	"sync"
	"sync/atomic"
	"time"
)

// Obligation is one verification condition: Assumptions ==> Goal.
type Obligation struct {
	decided string // text of the query that produced the verdict (thorough: second opinion)
	Retried bool
	St      *Symtab  // symbol table of the function the obligation was generated from (nil: the caller's)
	Name    string   // e.g. A/searchNode4/ret#1/ensures#1
	Func    string   // function it was generated from
	Kind    string   // safety | requires | ensures | invariant | lemma | cover | ...
	Pos     string   // source position
	Assume  []Term   // path condition + contract assumptions
	Goal    Term     // to be proved
	Cover   bool     // if true the query must be SAT (vacuity probe): Goal is ignored
	Inputs  []string // names of symbols worth printing from a model
	Note    string

	// results
	Result  string // unsat | sat | unknown | timeout | error
	Solver  string
	TimeS   float64
	Model   string
	Cached  bool
	QueryID string
	Stdout  string

	rawQuery string // complete SMT text (lemma obligations)
}

type SolverCfg struct {
	QuickTimeout time.Duration // stage 1 (z3-new alone)
	FullTimeout  time.Duration // stage 2 (all solvers)
	Agree        bool          // thorough: run all solvers and require agreement
	CacheDir     string
	NoCache      bool
	KeepDir      string                   // where to keep failed queries
	NoRetry      func(o *Obligation) bool // obligations whose failure is expected (known findings): no second attempt
}

var solverVersions = map[string]string{"z3-new": "5.1.0", "z3": "4.8.12", "cvc5": "1.0.3"}

const smtHeader = `(set-logic ALL)
(declare-sort Ref 0)
(declare-sort V 0)
(declare-sort K 0)
(declare-fun null () Ref)
(declare-fun nullrow () (Array Int Ref))
(assert (forall ((i Int)) (! (= (select nullrow i) null) :pattern ((select nullrow i)))))
`

func (o *Obligation) Query(st *Symtab) string {
	if o.rawQuery != "" {
		return o.rawQuery
	}
	if o.St != nil {
		st = o.St
	}
	var body strings.Builder
	for _, a := range o.Assume {
		if a.IsTrue() {
			continue
		}
		body.WriteString("(assert ")
		body.WriteString(a.S)
		body.WriteString(")\n")
	}
	if !o.Cover {
		body.WriteString("(assert (not ")
		body.WriteString(o.Goal.S)
		body.WriteString("))\n")
	}
	pre := st.Preamble(body.String())
	return smtHeader + pre + body.String() + "(check-sat)\n"
}

func runSolver(ctx context.Context, name string, query string, timeout time.Duration, wantModel bool) (res string, out string, dur float64) {
	return runSolverR(ctx, name, query, timeout, wantModel, 0)
}

// runSolverR: rlimit > 0 bounds z3 by its deterministic resource counter instead of (only) wall
// time, so that the answer does not depend on the load of the machine.
func runSolverR(ctx context.Context, name string, query string, timeout time.Duration, wantModel bool, rlimit int) (res string, out string, dur float64) {
	q := query
	if wantModel {
		q = "(set-option :produce-models true)\n" + query + "(get-model)\n"
	}
	var cmd *exec.Cmd
	secs := int(timeout.Seconds())
	if secs < 1 {
		secs = 1
	}
	cctx, cancel := context.WithTimeout(ctx, timeout+2*time.Second)
	defer cancel()
	switch name {
	case "z3-new":
		if rlimit > 0 {
			cmd = exec.CommandContext(cctx, "z3-new", "-in", "-smt2", fmt.Sprintf("-T:%d", secs), fmt.Sprintf("rlimit=%d", rlimit))
		} else {
			cmd = exec.CommandContext(cctx, "z3-new", "-in", "-smt2", fmt.Sprintf("-T:%d", secs))
		}
	case "z3":
		cmd = exec.CommandContext(cctx, "/usr/bin/z3", "-in", "-smt2", fmt.Sprintf("-T:%d", secs))
	case "cvc5":
		cmd = exec.CommandContext(cctx, "cvc5", "--lang=smt2", fmt.Sprintf("--tlimit=%d", secs*1000))
	default:
		return "error", "unknown solver " + name, 0
	}
	cmd.Stdin = strings.NewReader(q)
	var buf bytes.Buffer
	cmd.Stdout = &buf
	cmd.Stderr = &buf
	t0 := time.Now()
	err := cmd.Run()
	dur = time.Since(t0).Seconds()
	out = buf.String()
	first := strings.TrimSpace(strings.SplitN(out, "\n", 2)[0])
	switch first {
	case "unsat", "sat", "unknown":
		return first, out, dur
	}
	if cctx.Err() != nil || strings.Contains(out, "timeout") || strings.Contains(out, "interrupted") {
		return "timeout", out, dur
	}
	_ = err
	if ctx.Err() != nil {
		return "cancelled", out, dur
	}
	return "error", out, dur
}

var cacheMu sync.Mutex

func cacheKey(query string, tag string) string {
	h := sha256.Sum256([]byte(tag + "\n" + query))
	return hex.EncodeToString(h[:])
}

// Discharge decides one obligation.
func Discharge(o *Obligation, st *Symtab, cfg *SolverCfg) {
	if o.Solver == "simplifier" || o.Solver == "static-analysis" {
		return
	}
	query := o.Query(st)
	tag := fmt.Sprintf("z3-new=%s z3=%s cvc5=%s agree=%v full=%v", solverVersions["z3-new"], solverVersions["z3"], solverVersions["cvc5"], cfg.Agree, cfg.FullTimeout)
	key := cacheKey(query, tag)
	o.QueryID = key[:16]
	if !cfg.NoCache && cfg.CacheDir != "" {
		if b, err := os.ReadFile(filepath.Join(cfg.CacheDir, key)); err == nil {
			parts := strings.SplitN(string(b), "\n", 4)
			if len(parts) >= 3 {
				o.Result, o.Solver = parts[0], parts[1]
				fmt.Sscanf(parts[2], "%f", &o.TimeS)
				if len(parts) == 4 {
					o.Model = parts[3]
				}
				o.Cached = true
				return
			}
		}
	}
	defer func() {
		// only definite answers are cached
		if cfg.CacheDir != "" && !cfg.NoCache && (o.Result == "unsat" || o.Result == "sat") {
			os.MkdirAll(cfg.CacheDir, 0o755)
			os.WriteFile(filepath.Join(cfg.CacheDir, key), []byte(fmt.Sprintf("%s\n%s\n%f\n%s", o.Result, o.Solver, o.TimeS, o.Model)), 0o644)
		}
	}()
	ctx := context.Background()
	if cfg.Agree && !o.Cover {
		// thorough: the normal pipeline, then a second opinion. The query that was decided (full
		// context, light context or slice) is given to the two other solvers; a 'sat' from either is
		// a disagreement and fails the obligation, a timeout of theirs changes nothing.
		c2 := *cfg
		c2.Agree = false
		c2.CacheDir = ""
		dischargeWith(ctx, o, st, &c2, query)
		if o.Result == "unsat" && o.decided != "" {
			agree := []string{o.Solver}
			type op struct {
				sv, r string
				d     float64
			}
			ch := make(chan op, 2)
			for _, sv := range []string{"cvc5", "z3"} {
				go func(sv string) {
					r, _, d := runSolver(ctx, sv, o.decided, 5*time.Second, false)
					ch <- op{sv, r, d}
				}(sv)
			}
			for i := 0; i < 2; i++ {
				a := <-ch
				switch a.r {
				case "unsat":
					agree = append(agree, a.sv)
				case "sat":
					o.Result = "error"
					o.Stdout = "SOLVER DISAGREEMENT: " + o.Solver + "=unsat " + a.sv + "=sat"
				}
			}
			if o.Result != "unsat" {
				return
			}
			sort.Strings(agree[1:])
			o.Solver = strings.Join(agree, "+")
		}
		return
	}
	dischargeWith(ctx, o, st, cfg, query)
	if !o.Cover && o.Result != "unsat" && !(cfg.NoRetry != nil && cfg.NoRetry(o)) {
		atomic.AddInt32(&failedSoFar, 1)
	}
}

var failedSoFar int32

// dischargeWith: stages 0 (light context), 1 (z3 5.1 on the full query), 1b (goal-directed
// slices), 2 (race of the three solvers). o.decided records the query text that was decided.
func dischargeWith(ctx context.Context, o *Obligation, st *Symtab, cfg *SolverCfg, query string) {
	if o.Cover {
		// vacuity probe: the assumptions must not be refutable (sat, or not decided within 2 s)
		res, _, dur := runSolver(ctx, "z3-new", query, 2*time.Second, false)
		o.TimeS = dur
		o.Solver = "z3-new"
		if res == "unsat" {
			o.Result = "unsat"
		} else {
			o.Result = "sat"
			if res != "sat" {
				o.Stdout = "not refuted within 2 s (" + res + ")"
			}
		}
		return
	}
	// stage 0: light context. Dropping assumptions is sound for proving; most safety goals
	// need only the small facts of the path, not the (large, quantified) invariant instances.
	if o.rawQuery == "" && len(o.Assume) > 8 {
		var light []Term
		for _, a := range o.Assume {
			if len(a.S) <= 1500 && !strings.Contains(a.S, "(forall") && !strings.Contains(a.S, "(exists") {
				light = append(light, a)
			}
		}
		if len(light) < len(o.Assume) {
			lo := &Obligation{Assume: light, Goal: o.Goal, St: o.St}
			lq := lo.Query(st)
			r0, _, d0 := runSolver(ctx, "z3-new", lq, 2*time.Second, false)
			o.TimeS += d0
			if r0 == "unsat" {
				o.Result, o.Solver, o.decided = "unsat", "z3-new(light)", lq
				return
			}
		}
	}
	// stage 1
	res, out, dur := runSolver(ctx, "z3-new", query, cfg.QuickTimeout, true)
	o.TimeS += dur
	if res == "unsat" || res == "sat" {
		o.Result, o.Solver, o.decided = res, "z3-new", query
		if res == "sat" {
			o.Model = modelOf(out)
		}
		return
	}
	o.Stdout = out
	// Once several obligations of this run have failed the check's verdict is settled; the rest get
	// the quick stages only, so that a check on a broken tree ends in minutes, not hours.
	if cfg.NoRetry != nil && cfg.NoRetry(o) {
		// listed known finding: expected to fail; the slow stages would only burn minutes
		o.Result = res
		o.Stdout = "known finding: undecided by the quick stages, slow stages skipped | " + firstLines(out, 2)
		return
	}
	if atomic.LoadInt32(&failedSoFar) >= 8 {
		o.Result = res
		o.Stdout = "undecided by the quick stages; the slower stages were skipped because 8 obligations of this run had already failed all stages | " + firstLines(out, 2)
		return
	}
	// stage 1b: goal-directed slices. Keeping only the assumptions connected to the goal through
	// shared path symbols (one, two, zero hops) is sound - assumptions are only dropped - and
	// often decides in a fraction of a second what the full context does not within the limit.
	if o.rawQuery == "" && len(o.Assume) > 8 {
		for _, hops := range []int{1, 2, 0} {
			sub := coneOfInfluence(o.Assume, o.Goal, hops)
			if len(sub) == len(o.Assume) {
				continue
			}
			so := &Obligation{Assume: sub, Goal: o.Goal, St: o.St}
			sq := so.Query(st)
			r1, _, d1 := runSolver(ctx, "z3-new", sq, cfg.QuickTimeout, false)
			o.TimeS += d1
			if r1 == "unsat" {
				o.Result, o.Solver, o.decided = "unsat", fmt.Sprintf("z3-new(slice %d)", hops), sq
				return
			}
		}
	}
	// stage 2: race all three
	type ans struct {
		solver, res, out string
		dur              float64
	}
	rctx, cancel := context.WithCancel(ctx)
	defer cancel()
	ch := make(chan ans, 3)
	solvers := []string{"cvc5", "z3", "z3-new"}
	for _, s := range solvers {
		go func(s string) {
			r, out, d := runSolver(rctx, s, query, cfg.FullTimeout, true)
			ch <- ans{s, r, out, d}
		}(s)
	}
	o.Result = "unknown"
	var outs []string
	for range solvers {
		a := <-ch
		outs = append(outs, a.solver+": "+a.res)
		if a.res == "unsat" || a.res == "sat" {
			o.Result, o.Solver = a.res, a.solver
			o.TimeS += a.dur
			if a.res == "sat" {
				o.Model = modelOf(a.out)
			}
			cancel()
			return
		}
		if a.res == "timeout" && o.Result == "unknown" {
			o.Result = "timeout"
		}
		if a.res == "error" {
			outs = append(outs, firstLines(a.out, 3))
		}
	}
	o.TimeS += cfg.FullTimeout.Seconds()
	o.Stdout = strings.Join(outs, "; ")
}

func dischargeAgree(ctx context.Context, o *Obligation, query string, cfg *SolverCfg) {
	type ans struct {
		solver, res, out string
		dur              float64
	}
	solvers := []string{"z3-new", "z3", "cvc5"}
	ch := make(chan ans, 3)
	for _, s := range solvers {
		go func(s string) {
			r, out, d := runSolver(ctx, s, query, cfg.FullTimeout, true)
			ch <- ans{s, r, out, d}
		}(s)
	}
	var sat, unsat []string
	var notes []string
	var model string
	for range solvers {
		a := <-ch
		notes = append(notes, fmt.Sprintf("%s=%s(%.2fs)", a.solver, a.res, a.dur))
		if a.dur > o.TimeS {
			o.TimeS = a.dur
		}
		switch a.res {
		case "sat":
			sat = append(sat, a.solver)
			model = modelOf(a.out)
		case "unsat":
			unsat = append(unsat, a.solver)
		}
	}
	o.Stdout = strings.Join(notes, " ")
	switch {
	case len(sat) > 0 && len(unsat) > 0:
		o.Result = "error"
		o.Stdout = "SOLVER DISAGREEMENT: " + o.Stdout
	case len(unsat) > 0:
		o.Result, o.Solver = "unsat", strings.Join(unsat, "+")
	case len(sat) > 0:
		o.Result, o.Solver, o.Model = "sat", strings.Join(sat, "+"), model
	default:
		o.Result = "unknown"
	}
}

func modelOf(out string) string {
	i := strings.Index(out, "\n")
	if i < 0 {
		return ""
	}
	m := out[i+1:]
	if len(m) > 200000 {
		m = m[:200000]
	}
	return m
}

func firstLines(s string, n int) string {
	ls := strings.Split(s, "\n")
	if len(ls) > n {
		ls = ls[:n]
	}
	return strings.Join(ls, " | ")
}

// DischargeAll runs obligations on a worker pool.
func DischargeAll(obs []*Obligation, st *Symtab, cfg *SolverCfg, workers int) {
	var wg sync.WaitGroup
	ch := make(chan *Obligation)
	for i := 0; i < workers; i++ {
		wg.Add(1)
		go func() {
			defer wg.Done()
			for o := range ch {
				Discharge(o, st, cfg)
			}
		}()
	}
	for _, o := range obs {
		ch <- o
	}
	close(ch)
	wg.Wait()
	// Undecided obligations (timeout / unknown, never sat) are retried a few at a time with a
	// tripled time limit: a loaded machine must not turn into an alarm.
	var undecided []*Obligation
	for _, o := range obs {
		if !o.Cover && o.Result != "unsat" && o.Result != "sat" && o.Solver != "simplifier" && o.Solver != "static-analysis" {
			if cfg.NoRetry != nil && cfg.NoRetry(o) {
				continue
			}
			undecided = append(undecided, o)
		}
	}
	if len(undecided) == 0 || os.Getenv("VERIF_NORETRY") == "1" {
		return
	}
	cfg2 := *cfg
	cfg2.QuickTimeout = cfg.FullTimeout
	cfg2.FullTimeout = 3 * cfg.FullTimeout
	if atomic.LoadInt32(&failedSoFar) >= 8 {
		return // settled (see dischargeWith)
	}
	atomic.StoreInt32(&failedSoFar, 0)
	deadline := time.Now().Add(6 * time.Minute)
	ch2 := make(chan *Obligation)
	var wg2 sync.WaitGroup
	for i := 0; i < 3; i++ {
		wg2.Add(1)
		go func() {
			defer wg2.Done()
			for o := range ch2 {
				if time.Now().After(deadline) {
					continue
				}
				prev := o.Result
				o.Retried = true
				Discharge(o, st, &cfg2)
				if o.Result != "unsat" && o.Result != "sat" && prev != "" {
					o.Result = prev
				}
			}
		}()
	}
	for _, o := range undecided {
		ch2 <- o
	}
	close(ch2)
	wg2.Wait()
}

// workers: size of the solver pool (GOVC_WORKERS overrides the number of CPUs).
func workers() int {
	if v := os.Getenv("GOVC_WORKERS"); v != "" {
		if n, err := strconv.Atoi(v); err == nil && n > 0 {
			return n
		}
	}
	return runtime.NumCPU()
}

var symTokRe = regexp.MustCompile(`[A-Za-z_][A-Za-z0-9_.$#@]*![0-9]+`)

// coneOfInfluence: the assumptions that share a path symbol (a fresh constant name!N) with the
// goal, extended hops times through the symbols of the assumptions already selected.
func coneOfInfluence(assume []Term, goal Term, hops int) []Term {
	symsOf := func(s string) map[string]bool {
		m := map[string]bool{}
		for _, t := range symTokRe.FindAllString(s, -1) {
			if strings.HasPrefix(t, "H.") || strings.HasPrefix(t, "Hbv.") {
				continue // heap versions connect everything
			}
			m[t] = true
		}
		return m
	}
	cur := symsOf(goal.S)
	per := make([]map[string]bool, len(assume))
	for i, a := range assume {
		per[i] = symsOf(a.S)
	}
	sel := make([]bool, len(assume))
	for round := 0; round <= hops; round++ {
		var added []int
		for i := range assume {
			if sel[i] {
				continue
			}
			for t := range per[i] {
				if cur[t] {
					sel[i] = true
					added = append(added, i)
					break
				}
			}
		}
		for _, i := range added {
			for t := range per[i] {
				cur[t] = true
			}
		}
	}
	var out []Term
	for i, a := range assume {
		if sel[i] {
			out = append(out, a)
		}
	}
	return out
}
