package main

import (
	"context"
	"fmt"
	"go/types"
	"math/big"
	"sort"
	"strings"
	"time"

	"golang.org/x/tools/go/ssa"
)

type cont func(s *State, fr *Frame, v Value)

func (ex *Exec) calleeName(f *ssa.Function) string {
	return normName(f.RelString(ex.prog.SSA.Pkg))
}

// contractFor finds the contract of a callee (by exact name, then by its generic origin).
func (ex *Exec) contractFor(f *ssa.Function) (*Contract, string) {
	n := ex.calleeName(f)
	// kind-specific variant of a shared generic helper (prefixMismatch@alpha, ...)
	if k := ex.opts["kind"]; k != "" {
		for _, cand := range []string{n, ""} {
			if cand == "" && f.Origin() != nil {
				cand = ex.calleeName(f.Origin())
			}
			if cand != "" {
				if c := ex.prog.CF.Contracts[cand+"@"+k]; c != nil {
					return c, cand + "@" + k
				}
			}
		}
	}
	if c := ex.prog.CF.Contracts[n]; c != nil {
		return c, n
	}
	if o := f.Origin(); o != nil {
		n2 := ex.calleeName(o)
		if c := ex.prog.CF.Contracts[n2]; c != nil {
			return c, n2
		}
	}
	return nil, n
}

func (ex *Exec) call(s *State, fr *Frame, c *ssa.Call, k cont) {
	cc := c.Call
	var args []Value
	for _, a := range cc.Args {
		args = append(args, ex.val(fr, a))
	}
	if cc.IsInvoke() {
		recv := ex.val(fr, cc.Value)
		ex.invoke(s, fr, c, recv, cc.Method, args, k)
		return
	}
	switch f := cc.Value.(type) {
	case *ssa.Builtin:
		v := ex.builtin(s, fr, c, f.Name(), args)
		if s.dead {
			return
		}
		k(s, fr, v)
		return
	case *ssa.Function:
		ex.callFunc(s, fr, c, f, nil, args, k)
		return
	}
	fv, ok := ex.val(fr, cc.Value).(FuncV)
	if !ok {
		ex.unsupported("call of %s", describe(ex.val(fr, cc.Value)))
	}
	if fn, ok := fv.Fn.(*ssa.Function); ok && fn != nil {
		ex.callFunc(s, fr, c, fn, fv.Bindings, args, k)
		return
	}
	if len(args) == 1 {
		if body, ok := args[0].(FuncV); ok {
			if bf, ok := body.Fn.(*ssa.Function); ok && bf != nil {
				ex.iteratorCall(s, fr, c, fv, body, bf, k)
				return
			}
		}
	}
	ex.abstractCall(s, fr, c, fv, args, k)
}

// iteratorCall: an abstract push iterator (the result of Tree.All/Backward called through the
// interface) is handed the synthetic body closure of a range-over-func loop. The iterator is
// assumed to obey the iterator protocol that C14 proves for this package's own iterators: it
// calls the body sequentially, any number of times, and never again after a call returned false;
// and (like every yield in this model) neither it nor the callback writes the tree.
// The body closure is a function under contract:
//
//	requires     - holds at the first call (proved here) and, by the body's own
//	               ensures[reentry] implies(result, <requires>), at every later one
//	closure_inv  - holds when no call has been made (proved here) and after every complete call
//	               (proved at the body's exits); assumed here for the state the loop leaves behind
//
// The cells the body writes and the ghost 'stopped' flag are havocked.
func (ex *Exec) iteratorCall(s *State, fr *Frame, c *ssa.Call, it FuncV, body FuncV, bf *ssa.Function, k cont) {
	ct, name := ex.contractFor(bf)
	if ct == nil || len(ct.ClosureInv) == 0 {
		ex.unsupported("range-over-func body %s has no contract with a closure_inv clause", ex.calleeName(bf))
	}
	caller := normName(fr.fn.RelString(ex.prog.SSA.Pkg))
	mkVars := func() map[string]Value {
		vars := map[string]Value{}
		for i, fv := range bf.FreeVars {
			n := strings.ReplaceAll(fv.Name(), "$", "_")
			if pv, ok := body.Bindings[i].(PtrV); ok && pv.Kind == PCell {
				vars[n] = s.cells[pv.Cell]
			} else {
				vars[n] = body.Bindings[i]
			}
		}
		return vars
	}
	env := &SpecEnv{ex: ex, cur: s, old: s, vars: mkVars(), fn: bf, calleeMode: true}
	anchor := ex.anchor(c.Pos())
	for i, r := range ct.Requires {
		ex.check(s, "requires", fmt.Sprintf("%s/%s/iter:%s@%s/requires#%d", ex.layer, caller, name, anchor, i+1), env.evalProve(r.Expr), c.Pos(), r.Src)
	}
	for i, r := range ct.ClosureInv {
		ex.check(s, "requires", fmt.Sprintf("%s/%s/iter:%s@%s/closure_inv#%d", ex.layer, caller, name, anchor, i+1), env.evalProve(r.Expr), c.Pos(), r.Src)
	}
	// havoc what the body writes
	for i, fv := range bf.FreeVars {
		pv, ok := body.Bindings[i].(PtrV)
		if !ok || pv.Kind != PCell {
			continue
		}
		written := false
		for _, r := range *fv.Referrers() {
			if st, ok := r.(*ssa.Store); ok && st.Addr == fv {
				written = true
			}
		}
		if written {
			s.cells[pv.Cell] = ex.fresh(s, "iter."+fv.Name(), ex.subst(pv.Elem))
		}
	}
	s.ghost["stopped"] = BoolV{T: ex.st.Fresh("stopped.iter", SBool)}
	env2 := &SpecEnv{ex: ex, cur: s, old: s, vars: mkVars(), fn: bf, calleeMode: true}
	for _, r := range ct.ClosureInv {
		s.assume(env2.evalAssume(r.Expr))
	}
	k(s, fr, nil)
}

func (ex *Exec) callFunc(s *State, fr *Frame, c *ssa.Call, f *ssa.Function, bindings []Value, args []Value, k cont) {
	full := f.String()
	if f.Origin() != nil {
		full = f.Origin().String()
	}
	if v, ok := ex.external(s, fr, c, full, f, args); ok {
		if s.dead {
			return
		}
		k(s, fr, v)
		return
	}
	ct, name := ex.contractFor(f)
	if ct != nil && !ct.Inline && !(fr.top && f == ex.fn && false) {
		ex.applyContract(s, fr, c, f, ct, name, args, k)
		return
	}
	if f.Blocks == nil {
		ex.unsupported("call to %s: no body, no contract, no model", full)
	}
	if fr.depth >= ex.callDepthLimit {
		ex.unsupported("inlining depth exceeded at %s", full)
	}
	// inline; count the call (ghost: used by per-path accounting clauses such as size == old + new leaves)
	{
		key := "calls." + ex.calleeName(f)
		n := int64(0)
		if iv, ok := s.ghost[key].(IntV); ok {
			if c, ok := iv.T.IntConst(); ok {
				n = c.Int64()
			}
		}
		s.ghost[key] = IntV{T: IntC(n + 1), W: 64, Signed: true}
	}
	nf := &Frame{fn: f, env: map[ssa.Value]Value{}, depth: fr.depth + 1, entry: fr.entry}
	for i, p := range f.Params {
		nf.env[p] = args[i]
	}
	for i, fv := range f.FreeVars {
		nf.env[fv] = bindings[i]
	}
	saved := s.names
	s.names = map[string]Value{}
	for i, p := range f.Params {
		s.names[p.Name()] = args[i]
	}
	nf.ret = func(rs *State, results []Value) {
		rs.names = saved
		var v Value
		switch len(results) {
		case 0:
		case 1:
			v = results[0]
		default:
			v = TupleV{Elems: results}
		}
		k(rs, fr.fork(), v)
	}
	ex.runBlock(s, nf, f.Blocks[0], 0)
}

// applyContract: assert requires, havoc assigns, assume ensures.
func (ex *Exec) applyContract(s *State, fr *Frame, c *ssa.Call, f *ssa.Function, ct *Contract, name string, args []Value, k cont) {
	vars := map[string]Value{}
	for i, p := range f.Params {
		vars[p.Name()] = args[i]
	}
	// a renamed parameter is still known to the callee's contract under its old name
	if len(ct.Locals) > 0 {
		for old, cur := range localRenames(ct.Locals, orderedLocals(f)) {
			if v, ok := vars[cur]; ok {
				vars[old] = v
			}
		}
	}
	pre := s.clone()
	env := &SpecEnv{ex: ex, cur: s, old: s, vars: vars, fn: f, calleeMode: true}
	for _, l := range ct.Lets {
		vars[l.Label] = env.eval(l.Expr)
	}
	caller := normName(fr.fn.RelString(ex.prog.SSA.Pkg))
	// documented, unproved assumptions the caller's contract makes at this call
	if cc, _ := ex.contractFor(fr.fn); cc != nil {
		for _, a := range cc.CallAssumes[name] {
			s.assume(env.evalAssume(a.Expr))
			ex.callAssumesUsed[caller+" -> "+name+": "+a.Src] = true
		}
	}
	for i, r := range ct.Requires {
		label := r.Label
		if label == "" {
			label = fmt.Sprintf("requires#%d", i+1)
		}
		g := env.evalProve(r.Expr)
		ex.check(s, "requires", fmt.Sprintf("%s/%s/call:%s@%s/%s", ex.layer, caller, name, ex.anchor(c.Pos()), label), g, c.Pos(), r.Src)
	}
	// havoc
	var hv []string
	if ct.HasAssigns {
		hv = append([]string{}, ct.Assigns...)
	} else {
		for h := range ex.heapSorts {
			hv = append(hv, h)
		}
		sort.Strings(hv)
	}
	for i, h := range hv {
		hv[i] = ex.canonHeap(h)
	}
	{
		// a slice-typed field stands for its component arrays
		base := map[string]bool{}
		for _, h := range hv {
			base[h] = true
		}
		// arrays the caller has not touched yet must exist before they can be havocked
		for _, h := range hv {
			if !strings.HasPrefix(h, "*") && ex.heapSorts[h] == "" {
				ex.ensureHeapArrays(s, h)
			}
		}
		var more []string
		for h := range ex.heapSorts {
			if !base[h] && coveredBy(base, h) {
				more = append(more, h)
			}
		}
		sort.Strings(more)
		hv = append(hv, more...)
	}
	for _, h := range hv {
		if strings.HasPrefix(h, "*") {
			// assigns *p: exactly the location the pointer argument designates
			pv, ok := vars[h[1:]].(PtrV)
			if !ok {
				ex.unsupported("assigns %s: not a pointer parameter of %s", h, name)
			}
			ex.noteAssigned(pv)
			ex.storeVal(s, pv, ex.fresh(s, "havoc."+h[1:], ex.subst(pv.Elem)), pv.Elem)
			continue
		}
		sortS := ex.heapSorts[h]
		if sortS == "" {
			// ensure the array exists so that old() and the frame can talk about it
			continue
		}
		ex.assignedHeaps[h] = true
		s.setH(h, ex.st.Fresh("H."+h+".call", sortS))
	}
	wholeArrays := false
	for _, h := range hv {
		if !strings.HasPrefix(h, "*") {
			wholeArrays = true
		}
	}
	if _, noalloc := ct.Opts["noalloc"]; noalloc {
		wholeArrays = false // the callee allocates nothing (checked when the callee is verified)
	}
	if wholeArrays {
		// allocation is monotone
		oldAl := pre.H(ex, "alloc", ArrSort(SRef, SBool))
		newAl := ex.st.Fresh("H.alloc.call", ArrSort(SRef, SBool))
		s.setH("alloc", newAl)
		r := Term{"al!r", SRef}
		s.assume(Term{"(forall ((al!r Ref)) (! " + Implies(Select(oldAl, r), Select(newAl, r)).S + " :pattern (" + Select(newAl, r).S + ")))", SBool})
		// everything the callee allocated belongs to T as well
		s.assume(Term{"(forall ((al!r Ref)) (! " + Implies(And(Select(newAl, r), Not(Select(oldAl, r))), inTOf(ex.st, r)).S + " :pattern (" + Select(newAl, r).S + ")))", SBool})
	}
	// results
	var results []Value
	sig := f.Signature
	ex.nullableResults = true
	for i := 0; i < sig.Results().Len(); i++ {
		results = append(results, ex.fresh(s, "ret."+f.Name(), ex.subst(sig.Results().At(i).Type())))
	}
	ex.nullableResults = false
	post := &SpecEnv{ex: ex, cur: s, old: pre, vars: vars, results: results, fn: f, calleeMode: true, assigned: hv}
	// frame facts for the simplifier: arrays havocked by this call agree with their pre-call
	// versions outside the objects named in the contract's frame(...) clauses. Guarded frames
	// (implies(c_i, frame(...))) are used only if the guards are exhaustive on this path; the
	// exception lists are then united.
	{
		var frames []guardedFrame
		for _, e := range ct.Ensures {
			collectFrames(e.Expr, nil, &frames)
		}
		if len(frames) > 0 {
			preEnv := &SpecEnv{ex: ex, cur: pre, old: pre, vars: vars, fn: f, calleeMode: true}
			var except []string
			good := true
			unguarded := false
			var guardTerms []Term
			for _, gf := range frames {
				if len(gf.guards) == 0 {
					unguarded = true
				}
				for _, a := range gf.args {
					for _, env := range []*SpecEnv{preEnv, post} {
						func() {
							defer func() {
								if recover() != nil {
									good = false
								}
							}()
							except = append(except, env.refTerm(env.eval(a), a).S)
						}()
					}
				}
				func() {
					defer func() {
						if recover() != nil {
							good = false
						}
					}()
					var gs []Term
					for _, g := range gf.guards {
						gs = append(gs, post.nopol().evalBool(g))
					}
					guardTerms = append(guardTerms, And(gs...))
				}()
			}
			if good && !unguarded {
				o := &Obligation{Name: "aux/frame-guards", Assume: s.pc[:len(s.pc):len(s.pc)], Goal: Or(guardTerms...)}
				good = auxValid(ex.st, o, 3*time.Second)
			}
			if good {
				s.serial++
				for _, h := range hv {
					if strings.HasPrefix(h, "*") || h == "alloc" || h == "atype" {
						continue
					}
					if srt := ex.heapSorts[h]; srt != "" && indexSort(srt) == SRef {
						if before, ok := pre.heap[h]; ok {
							s.addFrame(s.heap[h].S, &frameInfo{old: before, except: except, serial: s.serial})
						}
					}
				}
			}
		}
	}
	for _, e := range ct.Ensures {
		// a clause about the callee's own locals (its state at the return) says nothing a caller
		// can use: it is proved when the callee is verified and skipped here
		func() {
			defer func() {
				if r := recover(); r != nil {
					if u, ok := r.(unsupported); ok && strings.Contains(u.msg, "unknown name") {
						return
					}
					panic(r)
				}
			}()
			s.assume(post.evalAssume(e.Expr))
		}()
	}
	// learn the class tag of every slot the callee may have relinked, if it is determined on
	// this path (keeps later class dispatches in specifications syntactically resolved)
	if ex.mode == ModeInt && !(ct.HasAssigns && len(ct.Assigns) == 0) {
		for _, a := range args {
			pv, ok := a.(PtrV)
			if !ok || pv.Kind != PSlot || pv.Field != "" {
				continue
			}
			tg := s.loadSlot(ex, pv.Obj, pv.Idx).Fields["tag"].(IntV).T
			if _, isC := tg.IntConst(); isC {
				continue
			}
			// candidates: the class before the call and its neighbours (grow / shrink)
			cands := []int64{0, 1, 2, 3, 4}
			if c, ok := pre.loadSlot(ex, pv.Obj, pv.Idx).Fields["tag"].(IntV).T.IntConst(); ok {
				cands = []int64{c.Int64(), c.Int64() + 1, c.Int64() - 1}
			}
			for _, k := range cands {
				if k < 0 || k > 4 {
					continue
				}
				if ex.provablyConst(s, tg, k) {
					s.assume(Eq(tg, IntC(k)))
					break
				}
			}
		}
	}
	var v Value
	switch len(results) {
	case 0:
	case 1:
		v = results[0]
	default:
		v = TupleV{Elems: results}
	}
	k(s, fr, v)
}

// ---------------------------------------------------------------------------
// builtins

func (ex *Exec) builtin(s *State, fr *Frame, c *ssa.Call, name string, args []Value) Value {
	switch name {
	case "len":
		switch x := args[0].(type) {
		case SliceV:
			return ex.fromIdx(x.Len)
		case ArrV:
			return ex.intConst(big.NewInt(int64(len(x.Elems))), 64, true)
		case OpaqueV:
			// len of a chars-typed key (unbound type parameter)
			ex.st.Func("K.len", []string{x.T.Sort}, SInt)
			l := App(SInt, "K.len", x.T)
			s.assumeOnce(ICmp("<=", IntC(0), l))
			return ex.fromIdx(l)
		}
	case "cap":
		if x, ok := args[0].(SliceV); ok {
			return ex.fromIdx(x.Cap)
		}
	case "min", "max":
		a, b := args[0].(IntV), args[1].(IntV)
		lt := ex.intBinop(s, fr, tokLSS, a, b, c).(BoolV).T
		if name == "max" {
			lt = Not(lt)
		}
		r := IntV{T: Ite(lt, a.T, b.T), W: a.W, Signed: a.Signed}
		for _, extra := range args[2:] {
			e := extra.(IntV)
			lt2 := ex.intBinop(s, fr, tokLSS, r, e, c).(BoolV).T
			if name == "max" {
				lt2 = Not(lt2)
			}
			r = IntV{T: Ite(lt2, r.T, e.T), W: r.W, Signed: r.Signed}
		}
		return r
	case "append":
		return ex.appendOp(s, fr, c, args)
	case "copy":
		return ex.copyOp(s, fr, c, args)
	case "clear":
		return ex.clearOp(s, fr, c, args)
	case "Slice": // unsafe.Slice(ptr, n)
		p, ok := args[0].(PtrV)
		n := ex.idxTerm(args[1].(IntV))
		if !ok || (p.Kind != PByte) {
			ex.unsupported("unsafe.Slice on %s", describe(args[0]))
		}
		ex.check(s, "safety", ex.obName(fr, "unsafe.Slice", c), ICmp("<=", IntC(0), n), c.Pos(), "unsafe.Slice: length non-negative")
		if ex.opts["extent"] == "on" && p.Ext.S != "" {
			// pointer into a fixed array field: the slice must end inside that array
			ex.emit(s, "extent", fmt.Sprintf("extent/%s/unsafe.Slice@%s", normName(fr.fn.RelString(ex.prog.SSA.Pkg)), ex.anchor(c.Pos())), ICmp("<=", n, p.Ext), c.Pos(), "unsafe.Slice stays inside the array its base pointer points into")
		} else if ex.opts["extent"] == "on" {
			bl := s.H(ex, "blen", ArrSort(SRef, SInt))
			ex.emit(s, "extent", fmt.Sprintf("extent/%s/unsafe.Slice@%s", normName(fr.fn.RelString(ex.prog.SSA.Pkg)), ex.anchor(c.Pos())), Or(Eq(n, IntC(0)), ICmp("<=", IAdd(p.Idx, n), Select(bl, p.Obj))), c.Pos(), "unsafe.Slice stays inside the allocation of its base pointer")
		}
		return SliceV{Kind: SlBytes, Obj: p.Obj, Off: p.Idx, Len: n, Cap: n, Elem: types.Typ[types.Uint8]}
	case "SliceData":
		sl := args[0].(SliceV)
		return PtrV{Kind: PByte, Obj: sl.Obj, Idx: sl.Off, Elem: sl.Elem}
	case "ssa:wrapnilchk":
		return args[0]
	}
	ex.unsupported("builtin %s on %s", name, describe(args[0]))
	return nil
}

const (
	tokLSS = 40 // token.LSS
)

func (ex *Exec) appendOp(s *State, fr *Frame, c *ssa.Call, args []Value) Value {
	dst := args[0].(SliceV)
	src, ok := args[1].(SliceV)
	if !ok {
		ex.unsupported("append of %s", describe(args[1]))
	}
	if dst.Kind == SlSeq {
		// sequence append (single element only: append(q, x))
		n, isC := src.Len.IntConst()
		if !isC || n.Int64() != 1 {
			ex.unsupported("sequence append of non-singleton")
		}
		r := dst
		if dst.SeqP.S != "" {
			e := ex.sliceElem(s, src, IntC(0)).(StructV)
			r.SeqP = Store(dst.SeqP, dst.Len, e.Fields["pointer"].(RefV).T)
			r.SeqT = Store(dst.SeqT, dst.Len, e.Fields["tag"].(IntV).T)
		} else {
			e := ex.sliceElem(s, src, IntC(0)).(IntV)
			r.SeqT = Store(dst.SeqT, dst.Len, e.T)
		}
		r.Len = IAdd(dst.Len, IntC(1))
		return r
	}
	if dst.Kind != SlBytes || src.Kind != SlBytes {
		ex.unsupported("append on slice kinds %d,%d", dst.Kind, src.Kind)
	}
	n, isC := src.Len.IntConst()
	if !isC || n.Int64() > 8 {
		ex.unsupported("append of symbolic-length slice")
	}
	newLen := IAdd(dst.Len, src.Len)
	fits := ICmp("<=", newLen, dst.Cap)
	if !fits.IsFalse() && !fits.IsTrue() {
		// decide the capacity test on this path if the solver can (three-index slices etc.)
		o := &Obligation{Name: "aux/append-fits", Assume: s.pc[:len(s.pc):len(s.pc)], Goal: Not(fits)}
		if auxValid(ex.st, o, 2*time.Second) {
			fits = False
		} else {
			o2 := &Obligation{Name: "aux/append-fits", Assume: s.pc[:len(s.pc):len(s.pc)], Goal: fits}
			if auxValid(ex.st, o2, 2*time.Second) {
				fits = True
			}
		}
	}
	if fits.IsFalse() {
		return ex.appendFresh(s, dst, src, int(n.Int64()))
	}
	if !fits.IsTrue() {
		// both outcomes are possible: this is where Go's append semantics matter.
		// Path-based execution forks through the continuation mechanism of the caller:
		// we encode the two outcomes with an ite on every component instead of forking,
		// keeping a single path: in-place writes are guarded stores.
		fresh := s.newObject(ex, "append", bytesTypeID)
		b := s.H(ex, "B", ex.bSort())
		// contents of the fresh object: copy of dst then src
		na := ex.st.Fresh("append.data", ArrSort(SInt, ex.byteSort()))
		i := Term{"ap!i", SInt}
		body := Implies(And(ICmp("<=", IntC(0), i), ICmp("<", i, dst.Len)), Eq(Select(na, i), Select(Select(b, dst.Obj), IAdd(dst.Off, i))))
		s.assume(Term{"(forall ((ap!i Int)) (! " + body.S + " :pattern (" + Select(na, i).S + ")))", SBool})
		for j := 0; j < int(n.Int64()); j++ {
			na = Store(na, IAdd(dst.Len, IntC(int64(j))), ex.sliceElem(s, src, IntC(int64(j))).(IntV).T)
		}
		// in-place version
		inplace := Select(b, dst.Obj)
		for j := 0; j < int(n.Int64()); j++ {
			inplace = Store(inplace, IAdd(dst.Off, IAdd(dst.Len, IntC(int64(j)))), ex.sliceElem(s, src, IntC(int64(j))).(IntV).T)
		}
		nb := Store(Store(b, fresh, na), dst.Obj, Ite(fits, inplace, Select(b, dst.Obj)))
		// note: if !fits the fresh object gets na; if fits the fresh object is unused garbage
		s.setH("B", nb)
		ex.assignedHeaps["B"] = true
		newCap := ex.st.Fresh("append.cap", SInt)
		s.assume(ICmp("<=", newLen, newCap))
		bl := s.H(ex, "blen", ArrSort(SRef, SInt))
		s.setH("blen", Store(bl, fresh, newCap))
		return SliceV{Kind: SlBytes, Obj: Ite(fits, dst.Obj, fresh), Off: Ite(fits, dst.Off, IntC(0)), Len: newLen, Cap: Ite(fits, dst.Cap, newCap), Elem: dst.Elem}
	}
	// fits for sure: in place
	b := s.H(ex, "B", ex.bSort())
	inplace := Select(b, dst.Obj)
	for j := 0; j < int(n.Int64()); j++ {
		inplace = Store(inplace, IAdd(dst.Off, IAdd(dst.Len, IntC(int64(j)))), ex.sliceElem(s, src, IntC(int64(j))).(IntV).T)
	}
	s.setH("B", Store(b, dst.Obj, inplace))
	ex.assignedHeaps["B"] = true
	r := dst
	r.Len = newLen
	return r
}

func (ex *Exec) appendFresh(s *State, dst, src SliceV, n int) Value {
	cp := ex.copyBytes(s, dst, false)
	b := s.H(ex, "B", ex.bSort())
	na := Select(b, cp.Obj)
	for j := 0; j < n; j++ {
		na = Store(na, IAdd(dst.Len, IntC(int64(j))), ex.sliceElem(s, src, IntC(int64(j))).(IntV).T)
	}
	s.setH("B", Store(b, cp.Obj, na))
	newLen := IAdd(dst.Len, IntC(int64(n)))
	newCap := ex.st.Fresh("append.cap", SInt)
	s.assume(ICmp("<=", newLen, newCap))
	bl := s.H(ex, "blen", ArrSort(SRef, SInt))
	s.setH("blen", Store(bl, cp.Obj, newCap))
	return SliceV{Kind: SlBytes, Obj: cp.Obj, Off: IntC(0), Len: newLen, Cap: newCap, Elem: dst.Elem}
}

func (ex *Exec) sliceElem(s *State, sl SliceV, i Term) Value {
	switch sl.Kind {
	case SlBytes:
		return s.loadByte(ex, sl.Obj, IAdd(sl.Off, i))
	case SlSlots:
		return s.loadSlot(ex, sl.Obj, IAdd(sl.Off, i))
	case SlSeq:
		if sl.SeqP.S != "" {
			tg := IntV{T: Select(sl.SeqT, i), W: 8}
			return ex.mkNodeRef(RefV{T: Select(sl.SeqP, i)}, tg)
		}
		w, sg, _ := intInfo(sl.Elem)
		return IntV{T: Select(sl.SeqT, i), W: w, Signed: sg}
	}
	return nil
}

// copyOp: copy(dst, src) with constant-bounded element counts is expanded;
// otherwise a quantified memmove on the byte heap.
// provablyConst asks the solver whether t equals the constant k on the current path
// (used to turn guarded element-wise copies into plain stores).
func (ex *Exec) provablyConst(s *State, t Term, k int64) bool {
	if c, ok := t.IntConst(); ok {
		return c.Int64() == k
	}
	o := &Obligation{Name: "aux/const", Assume: s.pc[:len(s.pc):len(s.pc)], Goal: Eq(t, IntC(k))}
	return auxValid(ex.st, o, time.Second)
}

var auxCache = map[string]bool{}

// auxValid: quick validity query used to simplify symbolic execution (never a verdict).
func auxValid(st *Symtab, o *Obligation, timeout time.Duration) bool {
	q := o.Query(st)
	key := cacheKey(q, "aux")
	if v, ok := auxCache[key]; ok {
		return v
	}
	// bounded by z3's deterministic resource counter (about 1-3 s of work), wall clock only as a backstop
	res, _, _ := runSolverR(context.Background(), "z3-new", q, 30*timeout, false, int(2000000*timeout.Seconds()))
	auxCache[key] = res == "unsat"
	return res == "unsat"
}

func (ex *Exec) copyOp(s *State, fr *Frame, c *ssa.Call, args []Value) Value {
	dst, src := args[0].(SliceV), args[1].(SliceV)
	lt := ICmp("<", dst.Len, src.Len)
	n := Ite(lt, dst.Len, src.Len)
	if _, isC := n.IntConst(); !isC {
		if mx := ex.sliceUpper(dst, src); mx >= 0 && ex.provablyConst(s, n, int64(mx)) {
			n = IntC(int64(mx))
		}
	}
	nameRow := func(t Term) Term {
		if len(t.S) < 60 {
			return t
		}
		c := ex.st.Fresh("row", t.Sort)
		s.assume(Eq(c, t))
		return c
	}
	guard := func(jj Term) Term {
		if c, ok := n.IntConst(); ok {
			if k, ok2 := jj.IntConst(); ok2 {
				return boolT(k.Cmp(c) < 0)
			}
		}
		return ICmp("<", jj, n)
	}
	if dst.Kind == SlSlots && (src.Kind == SlSlots) {
		// bounded by the array sizes (<= 256): element-wise, memmove semantics (all sources are
		// read from the row as it was before the copy)
		maxN := ex.sliceUpper(dst, src)
		if maxN < 0 {
			ex.unsupported("copy of nodeRef slices with unbounded length")
		}
		sp := s.H(ex, "SP", ex.spSort())
		stt := s.H(ex, "ST", ex.stSort())
		srcP, srcT := nameRow(s.sel(sp, src.Obj)), nameRow(s.sel(stt, src.Obj))
		dP0, dT0 := nameRow(s.sel(sp, dst.Obj)), nameRow(s.sel(stt, dst.Obj))
		dP, dT := dP0, dT0
		for j := 0; j < maxN; j++ {
			jj := IntC(int64(j))
			g := guard(jj)
			if g.IsFalse() {
				break
			}
			di := IAdd(dst.Off, jj)
			dP = Store(dP, di, Ite(g, Select(srcP, IAdd(src.Off, jj)), Select(dP0, di)))
			dT = Store(dT, di, Ite(g, Select(srcT, IAdd(src.Off, jj)), Select(dT0, di)))
		}
		s.setH("SP", Store(sp, dst.Obj, dP))
		s.setH("ST", Store(stt, dst.Obj, dT))
		ex.assignedHeaps["SP"], ex.assignedHeaps["ST"] = true, true
		return ex.fromIdx(n)
	}
	if dst.Kind == SlBytes && src.Kind == SlBytes {
		b := s.H(ex, "B", ex.bSort())
		maxN := ex.sliceUpper(dst, src)
		srcA := nameRow(s.sel(b, src.Obj))
		dA0 := nameRow(s.sel(b, dst.Obj))
		if maxN >= 0 && maxN <= 64 {
			dA := dA0
			for j := 0; j < maxN; j++ {
				jj := IntC(int64(j))
				g := guard(jj)
				if g.IsFalse() {
					break
				}
				di := IAdd(dst.Off, jj)
				dA = Store(dA, di, Ite(g, Select(srcA, IAdd(src.Off, jj)), Select(dA0, di)))
			}
			s.setH("B", Store(b, dst.Obj, dA))
		} else {
			na := ex.st.Fresh("memmove", ArrSort(SInt, ex.byteSort()))
			i := Term{"mm!i", SInt}
			inW := And(ICmp("<=", dst.Off, i), ICmp("<", i, IAdd(dst.Off, n)))
			body := Eq(Select(na, i), Ite(inW, Select(srcA, IAdd(src.Off, ISub(i, dst.Off))), Select(dA0, i)))
			s.assume(Term{"(forall ((mm!i Int)) (! " + body.S + " :pattern (" + Select(na, i).S + ")))", SBool})
			s.setH("B", Store(b, dst.Obj, na))
		}
		ex.assignedHeaps["B"] = true
		return ex.fromIdx(n)
	}
	ex.unsupported("copy on slice kinds %d <- %d", dst.Kind, src.Kind)
	return nil
}

// constUpper returns a constant upper bound of min(a,b) if one of them is constant.
func (ex *Exec) constUpper(a, b Term) int {
	best := -1
	for _, t := range []Term{a, b} {
		if c, ok := t.IntConst(); ok {
			if best < 0 || int(c.Int64()) < best {
				best = int(c.Int64())
			}
		}
	}
	return best
}

// sliceUpper: static upper bound of min(len(dst), len(src)), or -1.
func (ex *Exec) sliceUpper(dst, src SliceV) int {
	best := ex.constUpper(dst.Len, src.Len)
	for _, m := range []int{dst.MaxLen, src.MaxLen} {
		if m > 0 && (best < 0 || m < best) {
			best = m
		}
	}
	return best
}

func (ex *Exec) clearOp(s *State, fr *Frame, c *ssa.Call, args []Value) Value {
	sl := args[0].(SliceV)
	n, ok := sl.Len.IntConst()
	if !ok {
		ex.unsupported("clear of symbolic-length slice")
	}
	switch sl.Kind {
	case SlSlots:
		zero := ex.zero(ex.nodeRefType).(StructV)
		for j := int64(0); j < n.Int64(); j++ {
			s.storeSlot(ex, sl.Obj, IAdd(sl.Off, IntC(j)), zero)
		}
		ex.assignedHeaps["SP"], ex.assignedHeaps["ST"] = true, true
	case SlBytes:
		z := ex.intConst(big.NewInt(0), 8, false)
		for j := int64(0); j < n.Int64(); j++ {
			s.storeByte(ex, sl.Obj, IAdd(sl.Off, IntC(j)), z)
		}
		ex.assignedHeaps["B"] = true
	default:
		ex.unsupported("clear of slice kind %d", sl.Kind)
	}
	return nil
}

// ---------------------------------------------------------------------------
// models of external functions (assumed contracts; listed in the trusted base)

var usedExternals = map[string]bool{}

func (ex *Exec) external(s *State, fr *Frame, c *ssa.Call, full string, f *ssa.Function, args []Value) (Value, bool) {
	note := func() { usedExternals[full] = true }
	switch full {
	case "math/bits.TrailingZeros32", "math/bits.TrailingZeros", "math/bits.TrailingZeros64":
		note()
		x := args[0].(IntV)
		if x.T.Sort == SInt {
			ex.unsupported("TrailingZeros in int mode")
		}
		w := x.W
		if full == "math/bits.TrailingZeros32" {
			w = 32
		}
		// ite chain from the top: result = index of lowest set bit, w if zero
		res := BVCu(uint64(w), 64)
		for i := w - 1; i >= 0; i-- {
			bit := App(BVSort(1), fmt.Sprintf("(_ extract %d %d)", i, i), x.T)
			res = Ite(Eq(bit, BVCu(1, 1)), BVCu(uint64(i), 64), res)
		}
		return IntV{T: res, W: 64, Signed: true}, true
	case "(encoding/binary.bigEndian).PutUint16", "(encoding/binary.bigEndian).PutUint32", "(encoding/binary.bigEndian).PutUint64":
		note()
		sl := args[1].(SliceV)
		v := args[2].(IntV)
		n := v.W / 8
		ex.check(s, "safety", ex.obName(fr, "index", c), ICmp("<=", IntC(int64(n)), sl.Len), c.Pos(), "binary.BigEndian.PutUint: buffer long enough")
		for i := 0; i < n; i++ {
			hi := v.W - 1 - 8*i
			byteT := App(BVSort(8), fmt.Sprintf("(_ extract %d %d)", hi, hi-7), v.T)
			s.storeByte(ex, sl.Obj, IAdd(sl.Off, IntC(int64(i))), IntV{T: byteT, W: 8})
		}
		ex.assignedHeaps["B"] = true
		return nil, true
	case "(encoding/binary.bigEndian).Uint16", "(encoding/binary.bigEndian).Uint32", "(encoding/binary.bigEndian).Uint64":
		note()
		sl := args[1].(SliceV)
		w := map[string]int{"Uint16": 16, "Uint32": 32, "Uint64": 64}[full[strings.LastIndex(full, ".")+1:]]
		n := w / 8
		ex.check(s, "safety", ex.obName(fr, "index", c), ICmp("<=", IntC(int64(n)), sl.Len), c.Pos(), "binary.BigEndian.Uint: buffer long enough")
		var parts []Term
		for i := 0; i < n; i++ {
			parts = append(parts, s.loadByte(ex, sl.Obj, IAdd(sl.Off, IntC(int64(i)))).T)
		}
		return IntV{T: App(BVSort(w), "concat", parts...), W: w}, true
	case "math.IsInf":
		note()
		f := args[0].(FloatV)
		sign := args[1].(IntV)
		fp := toFP(f)
		inf := App(SBool, "fp.isInfinite", fp)
		neg := App(SBool, "fp.isNegative", fp)
		sc, _, okc := sign.T.BVConst()
		if !okc {
			ex.unsupported("math.IsInf with symbolic sign")
		}
		switch {
		case sc.Sign() == 0:
			return BoolV{T: inf}, true
		case sc.Cmp(big.NewInt(1)) == 0:
			return BoolV{T: And(inf, Not(neg))}, true
		default:
			return BoolV{T: And(inf, neg)}, true
		}
	case "math.IsNaN":
		note()
		return BoolV{T: App(SBool, "fp.isNaN", toFP(args[0].(FloatV)))}, true
	case "math.Inf":
		note()
		sign := args[0].(IntV)
		sc, _, okc := sign.T.BVConst()
		if !okc {
			ex.unsupported("math.Inf with symbolic sign")
		}
		// sign >= 0 -> +Inf
		half := new(big.Int).Lsh(bigOne, 63)
		if sc.Cmp(half) < 0 {
			return FloatV{Bits: BVCu(0x7FF0000000000000, 64), W: 64}, true
		}
		return FloatV{Bits: BVCu(0xFFF0000000000000, 64), W: 64}, true
	case "math.NaN":
		note()
		return FloatV{Bits: BVCu(0x7FF8000000000001, 64), W: 64}, true
	case "bytes.Equal":
		note()
		a, b := args[0].(SliceV), args[1].(SliceV)
		return BoolV{T: ex.bytesEqual(s, a, b)}, true
	case "bytes.Compare", "strings.Compare":
		note()
		a, b := args[0].(SliceV), args[1].(SliceV)
		// result in {-1,0,1}; 0 iff equal; sign given by the lexicographic order (uninterpreted beyond that)
		r := ex.st.Fresh("cmp", SInt)
		s.assume(Or(Eq(r, IntC(-1)), Eq(r, IntC(0)), Eq(r, IntC(1))))
		s.assume(Eq(Eq(r, IntC(0)), ex.bytesEqual(s, a, b)))
		s.assume(Eq(ICmp("<", r, IntC(0)), ex.lexLess(s, a, b)))
		s.assume(Eq(ICmp(">", r, IntC(0)), ex.lexLess(s, b, a))) // totality of the lexicographic order
		return ex.fromIdx(r), true
	case "bytes.HasPrefix":
		note()
		a, b := args[0].(SliceV), args[1].(SliceV)
		pre := a
		pre.Len = b.Len
		return BoolV{T: And(ICmp("<=", b.Len, a.Len), ex.bytesEqual(s, pre, b))}, true
	case "bytes.Clone":
		note()
		a := args[0].(SliceV)
		return ex.copyBytes(s, a, false), true
	case "bytes.Index":
		note()
		r := ex.st.Fresh("index", SInt)
		a := args[0].(SliceV)
		b := args[1].(SliceV)
		s.assume(And(ICmp("<=", IntC(-1), r), ICmp("<=", IAdd(r, b.Len), a.Len)))
		return ex.fromIdx(r), true
	case "(*golang.org/x/text/collate.Buffer).Reset":
		// collate.Buffer is append-only scratch; modelled by two ghost fields: the number of bytes
		// it currently holds (scratchLen) and the byte object they live in
		note()
		b := args[0].(RefV)
		ex.check(s, "safety", ex.obName(fr, "nilderef", c), Not(Eq(b.T, Null)), c.Pos(), "collate.Buffer.Reset on a nil buffer")
		ln := s.H(ex, "collateBuf.len", ArrSort(SRef, SInt))
		s.setH("collateBuf.len", Store(ln, b.T, IntC(0)))
		ex.assignedHeaps["collateBuf.len"] = true
		return nil, true
	case "(*golang.org/x/text/collate.Collator).Key", "(*golang.org/x/text/collate.Collator).KeyFromString":
		// Key appends the sort key of str to the buffer and returns the appended region - a slice
		// INTO the buffer's storage (valid until the next Reset), not a copy. The region is modelled
		// as a byte object of the distinguished allocation class scratchTypeID: it is not an
		// ordinary heap byte object (atype 1000), so a key that is stored without being copied out
		// is visible to the contracts. Its length and bytes are unconstrained.
		note()
		cl, b := args[0].(RefV), args[1].(RefV)
		ex.check(s, "safety", ex.obName(fr, "nilderef", c), And(Not(Eq(cl.T, Null)), Not(Eq(b.T, Null))), c.Pos(), "collate.Collator.Key needs a collator and a buffer")
		lnH := s.H(ex, "collateBuf.len", ArrSort(SRef, SInt))
		oldLen := Select(lnH, b.T)
		s.assume(ICmp("<=", IntC(0), oldLen))
		L := ex.st.Fresh("collate.keylen", SInt)
		s.assume(And(ICmp("<=", IntC(0), L), ICmp("<", L, IntC(1<<31))))
		obj := s.newObject(ex, "collatebuf", scratchTypeID)
		bl := s.H(ex, "blen", ArrSort(SRef, SInt))
		s.setH("blen", Store(bl, obj, L))
		bh := s.H(ex, "B", ex.bSort())
		s.setH("B", Store(bh, obj, ex.st.Fresh("collate.bytes", ArrSort(SInt, ex.byteSort()))))
		s.setH("collateBuf.len", Store(lnH, b.T, IAdd(oldLen, L)))
		ex.assignedHeaps["collateBuf.len"], ex.assignedHeaps["B"] = true, true
		return SliceV{Kind: SlBytes, Obj: obj, Off: IntC(0), Len: L, Cap: L, Elem: types.Typ[types.Uint8]}, true
	case "(*sync.Pool).Get":
		note()
		{
			n := int64(0)
			if iv, ok := s.ghost["calls.sync.Pool.Get"].(IntV); ok {
				if c, ok := iv.T.IntConst(); ok {
					n = c.Int64()
				}
			}
			s.ghost["calls.sync.Pool.Get"] = IntV{T: IntC(n + 1), W: 64, Signed: true}
		}
		return ex.poolGet(s, fr, c, args), true
	case "(*sync.Pool).Put":
		note()
		ex.poolPut(s, fr, c, args)
		return nil, true
	}
	return nil, false
}

// bytesEqual: len equal and pointwise equal (quantified).
func (ex *Exec) bytesEqual(s *State, a, b SliceV) Term {
	bh := s.H(ex, "B", ex.bSort())
	i := Term{"be!i", SInt}
	body := Implies(And(ICmp("<=", IntC(0), i), ICmp("<", i, a.Len)), Eq(Select(Select(bh, a.Obj), IAdd(a.Off, i)), Select(Select(bh, b.Obj), IAdd(b.Off, i))))
	if n, ok := a.Len.IntConst(); ok && n.Int64() <= 16 {
		var cs []Term
		for j := int64(0); j < n.Int64(); j++ {
			cs = append(cs, Eq(Select(Select(bh, a.Obj), IAdd(a.Off, IntC(j))), Select(Select(bh, b.Obj), IAdd(b.Off, IntC(j)))))
		}
		return And(append([]Term{Eq(a.Len, b.Len)}, cs...)...)
	}
	return And(Eq(a.Len, b.Len), Term{"(forall ((be!i Int)) " + body.S + ")", SBool})
}

// lexLess: strict lexicographic order on byte strings, with an explicit witness position.
func (ex *Exec) lexLess(s *State, a, b SliceV) Term {
	bh := s.H(ex, "B", ex.bSort())
	if la, ok := a.Len.IntConst(); ok {
		if lb, ok := b.Len.IntConst(); ok && la.Int64() <= 16 && lb.Int64() <= 16 {
			at := func(x SliceV, i int64) Term { return Select(Select(bh, x.Obj), IAdd(x.Off, IntC(i))) }
			lt := func(p, q Term) Term {
				if p.Sort == SInt {
					return ICmp("<", p, q)
				}
				return App(SBool, "bvult", p, q)
			}
			m := la.Int64()
			if lb.Int64() < m {
				m = lb.Int64()
			}
			var alts []Term
			var eqs []Term
			for k := int64(0); k < m; k++ {
				alts = append(alts, And(append(append([]Term{}, eqs...), lt(at(a, k), at(b, k)))...))
				eqs = append(eqs, Eq(at(a, k), at(b, k)))
			}
			if la.Int64() < lb.Int64() {
				alts = append(alts, And(eqs...))
			}
			return Or(alts...)
		}
	}
	k := Term{"lx!k", SInt}
	j := Term{"lx!j", SInt}
	at := func(x SliceV, i Term) Term { return Select(Select(bh, x.Obj), IAdd(x.Off, i)) }
	lt := func(p, q Term) Term {
		if p.Sort == SInt {
			return ICmp("<", p, q)
		}
		return App(SBool, "bvult", p, q)
	}
	agree := "(forall ((lx!j Int)) " + Implies(And(ICmp("<=", IntC(0), j), ICmp("<", j, k)), Eq(at(a, j), at(b, j))).S + ")"
	body := And(ICmp("<=", IntC(0), k), ICmp("<=", k, a.Len), ICmp("<=", k, b.Len), Term{agree, SBool},
		Or(And(Eq(k, a.Len), ICmp("<", k, b.Len)), And(ICmp("<", k, a.Len), ICmp("<", k, b.Len), lt(at(a, k), at(b, k)))))
	return Term{"(exists ((lx!k Int)) " + body.S + ")", SBool}
}

// sync.Pool model: nodePools[kind].Get().(*nodeK) returns a fresh zeroed node of class K
// (justified by the Put obligations: everything pooled is zero and unlinked).
func (ex *Exec) poolGet(s *State, fr *Frame, c *ssa.Call, args []Value) Value {
	kind := ex.poolKind(args[0])
	names := []string{"node4", "node16", "node48", "node256"}
	if kind < 0 || kind > 3 {
		ex.unsupported("sync.Pool.Get on unknown pool")
	}
	obj := ex.prog.Pkg.Types.Scope().Lookup(names[kind])
	t := obj.Type()
	l := ex.layouts.Of(t)
	r := s.newObject(ex, l.Name, l.TypeID)
	ex.zeroObject(s, r, t)
	return IfaceV{Dyn: types.NewPointer(t), Val: RefV{T: r, Typ: t}}
}

func (ex *Exec) poolKind(v Value) int {
	p, ok := v.(PtrV)
	if !ok || p.Kind != PGlobal {
		return -1
	}
	var k int
	if _, err := fmt.Sscanf(p.Field, "nodePools[%d]", &k); err != nil {
		return -1
	}
	return k
}

func (ex *Exec) poolPut(s *State, fr *Frame, c *ssa.Call, args []Value) {
	kind := ex.poolKind(args[0])
	iv, ok := args[1].(IfaceV)
	if !ok || iv.Dyn == nil {
		ex.unsupported("sync.Pool.Put of abstract value")
	}
	rv := iv.Val.(RefV)
	names := []string{"node4", "node16", "node48", "node256"}
	caller := normName(fr.fn.RelString(ex.prog.SSA.Pkg))
	site := fmt.Sprintf("%s/put@%s", caller, ex.anchor(c.Pos()))
	if kind < 0 || kind > 3 || baseTypeName(iv.Dyn) != names[kind] {
		ex.emit(s, "pool", "B/"+site+"/put_kind", False, c.Pos(), "node returned to the pool of its own class")
		return
	}
	// C12: clear before release
	env := &SpecEnv{ex: ex, cur: s, old: s, vars: map[string]Value{"x": rv}}
	if sp := ex.prog.CF.Specs["Zero"+strings.TrimPrefix(names[kind], "node")]; sp != nil {
		g := env.callSpec(sp, []Value{rv})
		ex.emit(s, "pool", "B/"+site+"/put_zero", g.(BoolV).T, c.Pos(), "node is all-zero when released to the pool")
	} else {
		ex.errorf("spec Zero%s missing", strings.TrimPrefix(names[kind], "node"))
	}
	// C12: release only after the replacement is linked (the slot *ref no longer references it)
	if ref, ok := s.names["ref"]; ok {
		if rp, ok := ref.(PtrV); ok {
			cur := ex.loadPtr(s, rp).(StructV)
			ex.emit(s, "pool", "B/"+site+"/put_unlinked", Neq(cur.Fields["pointer"].(RefV).T, rv.T), c.Pos(), "the slot that referenced the node was relinked before the node is released")
		}
	}
	// ghost: remember pooled objects
	pl := s.H(ex, "pooled", ArrSort(SRef, SBool))
	s.setH("pooled", Store(pl, rv.T, True))
}

// ---------------------------------------------------------------------------
// abstract calls (function-typed parameters) and interface invokes

func (ex *Exec) abstractCall(s *State, fr *Frame, c *ssa.Call, fv FuncV, args []Value, k cont) {
	name := fv.Name
	switch {
	case strings.HasSuffix(name, "yield"):
		// iterator protocol: no call after false
		stopped, ok := s.ghost["stopped"].(BoolV)
		if !ok {
			stopped = BoolV{T: False}
		}
		caller := normName(fr.fn.RelString(ex.prog.SSA.Pkg))
		ex.emit(s, "protocol", fmt.Sprintf("D/%s/protocol/no_call_after_false@%s", caller, ex.anchor(c.Pos())), Not(stopped.T), c.Pos(), "yield is not called again after it returned false")
		if fr.top && ex.contract != nil {
			// what the sequence may deliver: clauses over the closure's state at the yield call
			env := &SpecEnv{ex: ex, cur: s, old: fr.entry, vars: map[string]Value{}, fn: fr.fn, fr: fr}
			for i, yr := range ex.contract.YieldRequires {
				label := yr.Label
				if label == "" {
					label = fmt.Sprintf("yield_requires#%d", i+1)
				}
				ex.emit(s, "requires", fmt.Sprintf("D/%s/%s@%s", caller, label, ex.anchor(c.Pos())), env.evalProve(yr.Expr), c.Pos(), yr.Src)
			}
		}
		r := ex.st.Fresh("yield.ret", SBool)
		s.ghost["stopped"] = BoolV{T: Or(stopped.T, Not(r))}
		n, _ := s.ghost["yields"].(IntV)
		if n.T.S == "" {
			n = IntV{T: IntC(0), W: 64, Signed: true}
		}
		s.ghost["yields"] = IntV{T: IAdd(n.T, IntC(1)), W: 64, Signed: true}
		k(s, fr, BoolV{T: r})
		return
	}
	// pure abstract function: results are uninterpreted functions of scalar arguments
	sig := c.Call.Value.Type().Underlying().(*types.Signature)
	var argT []Term
	var argS []string
	for _, a := range args {
		switch x := a.(type) {
		case RefV:
			argT, argS = append(argT, x.T), append(argS, SRef)
		case OpaqueV:
			argT, argS = append(argT, x.T), append(argS, x.T.Sort)
		case IntV:
			argT, argS = append(argT, x.T), append(argS, x.T.Sort)
		default:
			ex.unsupported("abstract call %s with argument %s", name, describe(a))
		}
	}
	var results []Value
	for i := 0; i < sig.Results().Len(); i++ {
		rt := ex.subst(sig.Results().At(i).Type())
		fn := fmt.Sprintf("uf.%s.%d", sanitize(name), i)
		var srt string
		if b, ok := rt.Underlying().(*types.Basic); ok && b.Kind() == types.Bool {
			srt = SBool
		} else {
			srt = ex.scalarSort(rt)
		}
		ex.st.Func(fn, argS, srt)
		t := App(srt, fn, argT...)
		if srt == SBool {
			results = append(results, BoolV{T: t})
		} else {
			results = append(results, ex.wrapScalar(t, rt))
		}
	}
	var v Value
	switch len(results) {
	case 0:
	case 1:
		v = results[0]
	default:
		v = TupleV{Elems: results}
	}
	if v != nil {
		// ghost: result and arguments of the most recent call of this abstract function (last("name"))
		s.ghost["last."+name] = v
		for i, a := range args {
			s.ghost[fmt.Sprintf("lastarg%d.%s", i, name)] = a
		}
	}
	k(s, fr, v)
}

func (ex *Exec) invoke(s *State, fr *Frame, c *ssa.Call, recv Value, m *types.Func, args []Value, k cont) {
	switch m.Name() {
	case "getKey", "getTransformKey":
		// method of the leaf type parameter L: resolved to the leaf type this verification run is bound to
		leaf := ex.opts["leaf"]
		if leaf == "" {
			ex.unsupported("call of %s on a leaf type parameter without 'opt leaf <type>'", m.Name())
		}
		fn := ex.prog.Funcs[normName(fmt.Sprintf("(*%s[V]).%s", leaf, m.Name()))]
		rv, ok := recv.(RefV)
		if fn == nil || !ok {
			ex.unsupported("cannot resolve %s for leaf type %s", m.Name(), leaf)
		}
		obj := ex.prog.Pkg.Types.Scope().Lookup(leaf)
		rv.Typ = obj.Type()
		ex.castObligation(s, fr, rv.T, rv.Typ, c)
		ex.callFunc(s, fr, c, fn, nil, []Value{rv}, k)
		return
	case "All", "Backward":
		// Tree[K,V] behind the interface: an abstract push iterator (see iteratorCall)
		k(s, fr, FuncV{Name: "seq." + m.Name()})
		return
	case "Transform":
		// abstract codec (BinaryComparableKey hypothesis): two fresh byte slices with equal
		// contents determined by the key (pure, non-retaining)
		a := ex.codecTransform(s, args[0])
		k(s, fr, TupleV{Elems: []Value{a, a}})
		return
	case "Restore":
		sl := args[0].(SliceV)
		_ = sl
		kt := ex.st.Fresh("restored", SKey)
		k(s, fr, OpaqueV{T: kt, Typ: m.Type().(*types.Signature).Results().At(0).Type()})
		return
	}
	ex.unsupported("interface method %s", m.Name())
}

// codecTransform: enc(key) as a fresh byte object whose length and contents are
// uninterpreted functions of the key.
func (ex *Exec) codecTransform(s *State, key Value) SliceV {
	var kt Term
	switch x := key.(type) {
	case OpaqueV:
		kt = x.T
	default:
		ex.unsupported("codec transform of %s", describe(key))
	}
	ex.st.Func("enc.len", []string{kt.Sort}, SInt)
	ex.st.Func("enc.data", []string{kt.Sort}, ArrSort(SInt, ex.byteSort()))
	ln := App(SInt, "enc.len", kt)
	s.assumeOnce(And(ICmp("<=", IntC(0), ln), ICmp("<", ln, IntBig(new(big.Int).Lsh(bigOne, 31)))))
	obj := s.newObject(ex, "enc", bytesTypeID)
	b := s.H(ex, "B", ex.bSort())
	s.setH("B", Store(b, obj, App(ArrSort(SInt, ex.byteSort()), "enc.data", kt)))
	bl := s.H(ex, "blen", ArrSort(SRef, SInt))
	s.setH("blen", Store(bl, obj, ln))
	return SliceV{Kind: SlBytes, Obj: obj, Off: IntC(0), Len: ln, Cap: ln, Elem: types.Typ[types.Uint8]}
}

// checkCaptures: the `captures` clauses of the closure's contract are proved where the closure is
// created (over the values the captured variables hold at that point); a static side condition
// makes sure the creator does not write those variables afterwards.
func (ex *Exec) checkCaptures(s *State, fr *Frame, mc *ssa.MakeClosure, bs []Value) {
	f := mc.Fn.(*ssa.Function)
	ct, name := ex.contractFor(f)
	if ct == nil || len(ct.Captures) == 0 {
		return
	}
	vars := map[string]Value{}
	for i, fv := range f.FreeVars {
		if pv, ok := bs[i].(PtrV); ok && pv.Kind == PCell {
			vars[fv.Name()] = s.cells[pv.Cell]
		} else {
			vars[fv.Name()] = bs[i]
		}
		// stability: every write of the creator to the variable happens before the closure is made
		ok, detail := true, ""
		if al, isAl := mc.Bindings[i].(*ssa.Alloc); isAl {
			for _, r := range *al.Referrers() {
				switch r := r.(type) {
				case *ssa.Store:
					if r.Addr != al {
						ok, detail = false, "address of "+fv.Name()+" is stored"
						continue
					}
					sb, mb := r.Block(), mc.Block()
					before := false
					if sb == mb {
						for _, in := range sb.Instrs {
							if in == r {
								before = true
								break
							}
							if in == ssa.Instruction(mc) {
								break
							}
						}
					} else {
						before = !reaches(mb, sb)
					}
					if !before {
						ok, detail = false, "creator writes "+fv.Name()+" after creating the closure"
					}
				case *ssa.UnOp, *ssa.DebugRef:
				case *ssa.MakeClosure:
					if r != mc {
						ok, detail = false, fv.Name()+" is shared with another closure"
					}
				default:
					ok, detail = false, fmt.Sprintf("%s escapes through %T", fv.Name(), r)
				}
			}
		}
		caller := normName(fr.fn.RelString(ex.prog.SSA.Pkg))
		oname := fmt.Sprintf("%s/%s/closure:%s/captures/stable:%s", ex.layer, caller, name, fv.Name())
		if !ex.staticSeen[oname] {
			if ex.staticSeen == nil {
				ex.staticSeen = map[string]bool{}
			}
			ex.staticSeen[oname] = true
			ex.obs = append(ex.obs, staticOb(oname, caller, "captured variable is not written after the closure is created", ok, detail))
		}
	}
	env := &SpecEnv{ex: ex, cur: s, old: s, vars: vars, fn: f, calleeMode: true}
	caller := normName(fr.fn.RelString(ex.prog.SSA.Pkg))
	for i, r := range ct.Captures {
		label := r.Label
		if label == "" {
			label = fmt.Sprintf("captures#%d", i+1)
		}
		g := env.evalProve(r.Expr)
		ex.check(s, "captures", fmt.Sprintf("%s/%s/closure:%s@%s/%s", ex.layer, caller, name, ex.anchor(mc.Pos()), label), g, mc.Pos(), r.Src)
	}
}

// reaches: is block `to` reachable from block `from` (following successors)?
func reaches(from, to *ssa.BasicBlock) bool {
	seen := map[*ssa.BasicBlock]bool{}
	var dfs func(b *ssa.BasicBlock) bool
	dfs = func(b *ssa.BasicBlock) bool {
		for _, s := range b.Succs {
			if s == to {
				return true
			}
			if !seen[s] {
				seen[s] = true
				if dfs(s) {
					return true
				}
			}
		}
		return false
	}
	return dfs(from)
}

// ensureHeapArrays declares the heap array(s) of the field named "Struct.f.g" (a scalar field:
// one array; a slice- or string-typed field: its obj/off/len/cap components).
func (ex *Exec) ensureHeapArrays(s *State, name string) {
	parts := strings.Split(name, ".")
	if len(parts) < 2 {
		return
	}
	l, ok := ex.layouts.byName[parts[0]]
	if !ok {
		obj := ex.prog.Pkg.Types.Scope().Lookup(parts[0])
		if obj == nil {
			return
		}
		if _, isSt := obj.Type().Underlying().(*types.Struct); !isSt {
			return
		}
		l = ex.layouts.Of(obj.Type())
	}
	var fi *FieldInfo
	for _, f := range parts[1:] {
		fi = l.Fields[f]
		if fi == nil {
			return
		}
		if fi.Kind == FStruct && fi.Struct != nil {
			l = fi.Struct
		}
	}
	if fi == nil {
		return
	}
	ft := ex.subst(fi.Typ)
	isSliceLike := false
	switch u := ft.Underlying().(type) {
	case *types.Slice:
		isSliceLike = true
	case *types.Basic:
		isSliceLike = u.Kind() == types.String
	}
	switch {
	case isSliceLike:
		s.H(ex, name+".obj", ArrSort(SRef, SRef))
		for _, c := range []string{"off", "len", "cap"} {
			s.H(ex, name+"."+c, ArrSort(SRef, ex.intSort(types.Typ[types.Int])))
		}
	case fi.Kind == FScalar:
		func() {
			defer func() { recover() }()
			s.H(ex, name, ArrSort(SRef, ex.scalarSort(ft)))
		}()
	}
}
