package main

// Terms are SMT-LIB2 s-expressions kept as strings together with their sort.
// A small amount of constant folding keeps path conditions readable and lets
// the executor prune branches whose condition is literally true/false.

import (
	"fmt"
	"math/big"
	"sort"
	"strings"
	"sync"
)

type Term struct {
	S    string
	Sort string
}

const (
	SBool = "Bool"
	SInt  = "Int"
	SRef  = "Ref"
	SVal  = "V" // uninterpreted sort of generic values (type parameter V)
	SKey  = "K" // uninterpreted sort of generic keys (type parameter K)
)

func BVSort(w int) string { return fmt.Sprintf("(_ BitVec %d)", w) }
func ArrSort(i, e string) string {
	return "(Array " + i + " " + e + ")"
}

func isBVSort(s string) (int, bool) {
	var w int
	if n, _ := fmt.Sscanf(s, "(_ BitVec %d)", &w); n == 1 {
		return w, true
	}
	return 0, false
}

var (
	True  = Term{"true", SBool}
	False = Term{"false", SBool}
	Null  = Term{"null", SRef}
)

func IntC(n int64) Term {
	if n < 0 {
		return Term{fmt.Sprintf("(- %d)", -n), SInt}
	}
	return Term{fmt.Sprintf("%d", n), SInt}
}

func IntBig(n *big.Int) Term {
	if n.Sign() < 0 {
		return Term{"(- " + new(big.Int).Neg(n).String() + ")", SInt}
	}
	return Term{n.String(), SInt}
}

func BVC(n *big.Int, w int) Term {
	m := new(big.Int).Lsh(big.NewInt(1), uint(w))
	v := new(big.Int).Mod(n, m)
	return Term{fmt.Sprintf("(_ bv%s %d)", v.String(), w), BVSort(w)}
}

func BVCu(n uint64, w int) Term { return BVC(new(big.Int).SetUint64(n), w) }

// constant recognition -------------------------------------------------

func (t Term) IntConst() (*big.Int, bool) {
	if t.Sort != SInt {
		return nil, false
	}
	s := t.S
	neg := false
	if strings.HasPrefix(s, "(- ") && strings.HasSuffix(s, ")") {
		neg = true
		s = s[3 : len(s)-1]
	}
	if s == "" || s[0] < '0' || s[0] > '9' {
		return nil, false
	}
	n, ok := new(big.Int).SetString(s, 10)
	if !ok {
		return nil, false
	}
	if neg {
		n.Neg(n)
	}
	return n, true
}

func (t Term) BVConst() (*big.Int, int, bool) {
	w, ok := isBVSort(t.Sort)
	if !ok || !strings.HasPrefix(t.S, "(_ bv") {
		return nil, 0, false
	}
	var v string
	var w2 int
	body := strings.TrimSuffix(strings.TrimPrefix(t.S, "(_ bv"), ")")
	parts := strings.Fields(body)
	if len(parts) != 2 {
		return nil, 0, false
	}
	v = parts[0]
	fmt.Sscanf(parts[1], "%d", &w2)
	n, ok := new(big.Int).SetString(v, 10)
	if !ok || w2 != w {
		return nil, 0, false
	}
	return n, w, true
}

func (t Term) IsTrue() bool  { return t.S == "true" }
func (t Term) IsFalse() bool { return t.S == "false" }

// constructors ---------------------------------------------------------

func App(sort string, op string, args ...Term) Term {
	var b strings.Builder
	b.WriteByte('(')
	b.WriteString(op)
	for _, a := range args {
		b.WriteByte(' ')
		b.WriteString(a.S)
	}
	b.WriteByte(')')
	return Term{b.String(), sort}
}

func Not(a Term) Term {
	if a.IsTrue() {
		return False
	}
	if a.IsFalse() {
		return True
	}
	if strings.HasPrefix(a.S, "(not ") {
		return Term{a.S[5 : len(a.S)-1], SBool}
	}
	return App(SBool, "not", a)
}

func And(as ...Term) Term {
	var xs []Term
	for _, a := range as {
		if a.IsFalse() {
			return False
		}
		if a.IsTrue() {
			continue
		}
		xs = append(xs, a)
	}
	if len(xs) == 0 {
		return True
	}
	if len(xs) == 1 {
		return xs[0]
	}
	return App(SBool, "and", xs...)
}

func Or(as ...Term) Term {
	var xs []Term
	for _, a := range as {
		if a.IsTrue() {
			return True
		}
		if a.IsFalse() {
			continue
		}
		xs = append(xs, a)
	}
	if len(xs) == 0 {
		return False
	}
	if len(xs) == 1 {
		return xs[0]
	}
	return App(SBool, "or", xs...)
}

func Implies(a, b Term) Term {
	if a.IsTrue() {
		return b
	}
	if a.IsFalse() || b.IsTrue() {
		return True
	}
	return App(SBool, "=>", a, b)
}

func Eq(a, b Term) Term {
	if a.Sort != b.Sort {
		panic(fmt.Sprintf("Eq: sort mismatch %s:%s vs %s:%s", a.S, a.Sort, b.S, b.Sort))
	}
	if a.S == b.S {
		return True
	}
	if x, ok := a.IntConst(); ok {
		if y, ok := b.IntConst(); ok {
			return boolT(x.Cmp(y) == 0)
		}
	}
	if x, _, ok := a.BVConst(); ok {
		if y, _, ok := b.BVConst(); ok {
			return boolT(x.Cmp(y) == 0)
		}
	}
	if a.Sort == SBool {
		if a.IsTrue() {
			return b
		}
		if b.IsTrue() {
			return a
		}
		if a.IsFalse() {
			return Not(b)
		}
		if b.IsFalse() {
			return Not(a)
		}
	}
	return App(SBool, "=", a, b)
}

func Neq(a, b Term) Term { return Not(Eq(a, b)) }

func boolT(b bool) Term {
	if b {
		return True
	}
	return False
}

func Ite(c, a, b Term) Term {
	if c.IsTrue() {
		return a
	}
	if c.IsFalse() {
		return b
	}
	if a.S == b.S {
		return a
	}
	if a.Sort != b.Sort {
		panic(fmt.Sprintf("Ite: sort mismatch %s vs %s", a.Sort, b.Sort))
	}
	return App(a.Sort, "ite", c, a, b)
}

// integer (mathematical) arithmetic
func IAdd(a, b Term) Term {
	if x, ok := a.IntConst(); ok {
		if y, ok := b.IntConst(); ok {
			return IntBig(new(big.Int).Add(x, y))
		}
		if x.Sign() == 0 {
			return b
		}
	}
	if y, ok := b.IntConst(); ok && y.Sign() == 0 {
		return a
	}
	return App(SInt, "+", a, b)
}
func ISub(a, b Term) Term {
	if x, ok := a.IntConst(); ok {
		if y, ok := b.IntConst(); ok {
			return IntBig(new(big.Int).Sub(x, y))
		}
	}
	if y, ok := b.IntConst(); ok && y.Sign() == 0 {
		return a
	}
	return App(SInt, "-", a, b)
}
func IMul(a, b Term) Term {
	if x, ok := a.IntConst(); ok {
		if y, ok := b.IntConst(); ok {
			return IntBig(new(big.Int).Mul(x, y))
		}
	}
	return App(SInt, "*", a, b)
}
func ICmp(op string, a, b Term) Term {
	if x, ok := a.IntConst(); ok {
		if y, ok := b.IntConst(); ok {
			c := x.Cmp(y)
			switch op {
			case "<":
				return boolT(c < 0)
			case "<=":
				return boolT(c <= 0)
			case ">":
				return boolT(c > 0)
			case ">=":
				return boolT(c >= 0)
			}
		}
	}
	return App(SBool, op, a, b)
}

func Select(arr, idx Term) Term {
	// (select (store a i v) i) = v for syntactically equal indices
	es := elemSort(arr.Sort)
	if strings.HasPrefix(arr.S, "(store ") {
		if a, i, v, ok := splitStore(arr.S); ok {
			if i == idx.S {
				return Term{v, es}
			}
			// distinct integer constants: look through
			if isNumeral(i) && isNumeral(idx.S) {
				return Select(Term{a, arr.Sort}, idx)
			}
		}
	}
	return App(es, "select", arr, idx)
}

func isNumeral(s string) bool {
	if s == "" {
		return false
	}
	for _, c := range s {
		if c < '0' || c > '9' {
			return false
		}
	}
	return true
}

func Store(arr, idx, v Term) Term {
	if elemSort(arr.Sort) != v.Sort {
		panic(fmt.Sprintf("Store: elem sort mismatch arr=%s v=%s (%s)", arr.Sort, v.Sort, v.S))
	}
	return App(arr.Sort, "store", arr, idx, v)
}

// splitStore parses "(store A I V)" into its three argument strings.
func splitStore(s string) (a, i, v string, ok bool) {
	args := splitArgs(s)
	if len(args) != 4 || args[0] != "store" {
		return "", "", "", false
	}
	return args[1], args[2], args[3], true
}

// splitArgs splits a parenthesised application into head and arguments.
func splitArgs(s string) []string {
	if len(s) < 2 || s[0] != '(' || s[len(s)-1] != ')' {
		return nil
	}
	s = s[1 : len(s)-1]
	var out []string
	depth := 0
	start := -1
	for i := 0; i < len(s); i++ {
		c := s[i]
		switch {
		case c == '(':
			if depth == 0 && start < 0 {
				start = i
			}
			depth++
		case c == ')':
			depth--
			if depth == 0 {
				out = append(out, s[start:i+1])
				start = -1
			}
		case c == ' ' || c == '\n' || c == '\t':
			if depth == 0 && start >= 0 {
				out = append(out, s[start:i])
				start = -1
			}
		default:
			if depth == 0 && start < 0 {
				start = i
			}
		}
	}
	if start >= 0 {
		out = append(out, s[start:])
	}
	return out
}

func elemSort(arr string) string {
	args := splitArgs(arr)
	if len(args) != 3 || args[0] != "Array" {
		panic("elemSort: not an array sort: " + arr)
	}
	return args[2]
}
func indexSort(arr string) string {
	args := splitArgs(arr)
	if len(args) != 3 || args[0] != "Array" {
		panic("indexSort: not an array sort: " + arr)
	}
	return args[1]
}

// symbol table -----------------------------------------------------------

type Decl struct {
	Name string
	Args []string
	Ret  string
}

type Symtab struct {
	mu    sync.Mutex
	decls map[string]Decl
	defs  map[string]string // define-fun text by name (emitted when referenced)
	deps  map[string][]string
	order []string
	n     int
}

func NewSymtab() *Symtab {
	st := &Symtab{decls: map[string]Decl{}, defs: map[string]string{}, deps: map[string][]string{}}
	registerCounting(st)
	return st
}

func (st *Symtab) Fresh(prefix, sort string) Term {
	st.mu.Lock()
	defer st.mu.Unlock()
	st.n++
	name := fmt.Sprintf("%s!%d", sanitize(prefix), st.n)
	st.decls[name] = Decl{Name: name, Ret: sort}
	return Term{name, sort}
}

func (st *Symtab) Const(name, sort string) Term {
	st.mu.Lock()
	defer st.mu.Unlock()
	name = sanitize(name)
	if d, ok := st.decls[name]; ok {
		if d.Ret != sort || len(d.Args) != 0 {
			panic("Const redeclared with other sort: " + name)
		}
	} else {
		st.decls[name] = Decl{Name: name, Ret: sort}
	}
	return Term{name, sort}
}

func (st *Symtab) Func(name string, args []string, ret string) {
	st.mu.Lock()
	defer st.mu.Unlock()
	if d, ok := st.decls[name]; ok {
		if d.Ret != ret || len(d.Args) != len(args) {
			panic("Func redeclared: " + name)
		}
		return
	}
	st.decls[name] = Decl{Name: name, Args: args, Ret: ret}
}

// Define registers a define-fun (full text) under name.
func (st *Symtab) Define(name, text string) {
	st.mu.Lock()
	defer st.mu.Unlock()
	if _, ok := st.defs[name]; !ok {
		st.defs[name] = text
		st.order = append(st.order, name)
	}
}

func sanitize(s string) string {
	var b strings.Builder
	for _, c := range s {
		switch {
		case c >= 'a' && c <= 'z', c >= 'A' && c <= 'Z', c >= '0' && c <= '9', c == '_', c == '.', c == '!', c == '$':
			b.WriteRune(c)
		default:
			b.WriteByte('_')
		}
	}
	return b.String()
}

// tokens returns the set of symbol-like tokens of an SMT text.
func tokens(s string, into map[string]bool) {
	start := -1
	for i := 0; i <= len(s); i++ {
		var c byte = ' '
		if i < len(s) {
			c = s[i]
		}
		if c == '(' || c == ')' || c == ' ' || c == '\n' || c == '\t' {
			if start >= 0 {
				into[s[start:i]] = true
				start = -1
			}
		} else if start < 0 {
			start = i
		}
	}
}

// Preamble returns declarations/definitions needed by the given texts.
func (st *Symtab) Preamble(texts ...string) string {
	st.mu.Lock()
	defer st.mu.Unlock()
	used := map[string]bool{}
	for _, t := range texts {
		tokens(t, used)
	}
	// definitions, transitively
	needDef := map[string]bool{}
	changed := true
	for changed {
		changed = false
		for _, name := range st.order {
			if used[name] && !needDef[name] {
				needDef[name] = true
				tokens(st.defs[name], used)
				changed = true
			}
		}
	}
	var names []string
	for n := range used {
		if _, ok := st.decls[n]; ok {
			names = append(names, n)
		}
	}
	sort.Strings(names)
	var b strings.Builder
	for _, n := range names {
		d := st.decls[n]
		fmt.Fprintf(&b, "(declare-fun %s (%s) %s)\n", d.Name, strings.Join(d.Args, " "), d.Ret)
	}
	for _, name := range st.order {
		if needDef[name] {
			b.WriteString(st.defs[name])
			b.WriteByte('\n')
		}
	}
	return b.String()
}
