package main

import (
	"fmt"
	"golang.org/x/tools/go/ssa/ssautil"
	"strings"
)

func dbgFuncs(p *Program) {
	for fn := range ssautil.AllFunctions(p.Prog) {
		if strings.Contains(fn.String(), "BinaryKey") {
			fmt.Println(fn.String(), "|", fn.Synthetic, "| pkg", fn.Pkg != nil, "| origin", fn.Origin() != nil)
		}
	}
}
