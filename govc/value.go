package main

import (
	"fmt"
	"go/types"
)

// Mode selects the integer encoding of the function under verification.
type Mode int

const (
	ModeInt Mode = iota // mathematical integers + machine-range obligations
	ModeBV              // exact bit-vectors of the Go width
)

// Value is a symbolic Go value.
type Value interface{ vkind() string }

// IntV: any Go integer (Int or BV term depending on the mode), also bytes.
type IntV struct {
	T      Term
	W      int  // Go width in bits
	Signed bool // Go signedness
}

// BoolV: Go bool.
type BoolV struct{ T Term }

// FloatV: IEEE bits of a float32/float64 (always a bit-vector, in both modes).
type FloatV struct {
	Bits Term
	W    int
}

// RefV: an object identity (unsafe.Pointer, or pointer to a heap struct object).
// Typ is the static pointee type if known (nil for unsafe.Pointer).
type RefV struct {
	T   Term
	Typ types.Type
}

// OpaqueV: value of uninterpreted sort (type parameter V, K ...).
type OpaqueV struct {
	T   Term
	Typ types.Type
}

type PtrKind int

const (
	PField   PtrKind = iota // pointer to scalar field Field of heap object Obj
	PSlot                   // pointer to nodeRef slot (Obj, Idx)
	PByte                   // pointer to byte (Obj, Idx) in the byte heap
	PSlotArr                // pointer to [N]nodeRef at (Obj, base Idx)
	PByteArr                // pointer to [N]byte at (Obj, base Idx)
	PCell                   // pointer to a local cell (Alloc / free var)
	PSub                    // pointer into a local cell: Path selects a sub-value
	PStruct                 // pointer to an embedded struct inside heap object Obj (fields prefixed by Field)
	PGlobal                 // address of a package-level variable (Field = name)
)

// PtrV: interior pointers with statically known shape (path-based execution
// never merges pointers of different shapes).
type PtrV struct {
	Kind  PtrKind
	Obj   Term
	Idx   Term
	N     int    // array length for P*Arr
	Field string // heap array name (PField) / prefix (PStruct) / global name
	Cell  int
	Path  []string   // PSub: field names / constant indices into the cell value
	Elem  types.Type // pointee type
	Ext   Term       // PByte derived from an array field: number of bytes from this pointer to the end of the array
}

// StructV: struct value with named fields (nodeRef, node, codec structs, ...).
type StructV struct {
	Typ    types.Type
	Names  []string
	Fields map[string]Value
}

// ArrV: fixed-size array value.
type ArrV struct {
	Elem  types.Type
	Elems []Value
}

type SliceKind int

const (
	SlBytes SliceKind = iota // []byte / string over the byte heap
	SlSeq                    // local mathematical sequence of nodeRef / int (never aliased)
	SlSlots                  // []nodeRef window onto a node's children array
)

// SliceV: slices and strings.
type SliceV struct {
	Kind   SliceKind
	Obj    Term // backing object (SlBytes, SlSlots)
	Off    Term
	Len    Term
	Cap    Term
	IsStr  bool
	Elem   types.Type
	SeqP   Term // SlSeq of nodeRef: pointer components (Array Int Ref)
	SeqT   Term // SlSeq of nodeRef: tag components (Array Int Int/BV8); SlSeq of int: values
	IsNil  Term // may be nil slice
	MaxLen int  // static upper bound of Len (slices of fixed arrays); 0 = unknown
}

// IfaceV: interface value with statically known dynamic type (or abstract).
type IfaceV struct {
	Dyn types.Type // nil => abstract/unknown
	Val Value
	T   Term // abstract identity when Dyn == nil
}

// FuncV: function value / closure.
type FuncV struct {
	Fn       interface{} // *ssa.Function or nil for abstract
	Bindings []Value
	Name     string // abstract function parameter name (yield, restore, predicate...)
}

type TupleV struct{ Elems []Value }

// NilV: untyped nil constant (adapts to context).
type NilV struct{ Typ types.Type }

func (IntV) vkind() string    { return "int" }
func (BoolV) vkind() string   { return "bool" }
func (FloatV) vkind() string  { return "float" }
func (RefV) vkind() string    { return "ref" }
func (OpaqueV) vkind() string { return "opaque" }
func (PtrV) vkind() string    { return "ptr" }
func (StructV) vkind() string { return "struct" }
func (ArrV) vkind() string    { return "array" }
func (SliceV) vkind() string  { return "slice" }
func (IfaceV) vkind() string  { return "iface" }
func (FuncV) vkind() string   { return "func" }
func (TupleV) vkind() string  { return "tuple" }
func (NilV) vkind() string    { return "nil" }

func (s StructV) with(name string, v Value) StructV {
	nf := make(map[string]Value, len(s.Fields))
	for k, x := range s.Fields {
		nf[k] = x
	}
	nf[name] = v
	return StructV{Typ: s.Typ, Names: s.Names, Fields: nf}
}

func describe(v Value) string {
	switch x := v.(type) {
	case IntV:
		return fmt.Sprintf("int%d(%s)", x.W, x.T.S)
	case BoolV:
		return "bool(" + x.T.S + ")"
	case RefV:
		return "ref(" + x.T.S + ")"
	case PtrV:
		return fmt.Sprintf("ptr{k=%d obj=%s idx=%s f=%s cell=%d path=%v}", x.Kind, x.Obj.S, x.Idx.S, x.Field, x.Cell, x.Path)
	case StructV:
		return fmt.Sprintf("struct%v", x.Names)
	case SliceV:
		return fmt.Sprintf("slice{k=%d obj=%s off=%s len=%s}", x.Kind, x.Obj.S, x.Off.S, x.Len.S)
	case nil:
		return "<nil>"
	}
	return v.vkind()
}
