package main

// Static (syntactic) obligations over the SSA: facts that need no solver.
//   reiterable   : a sequence closure (and everything nested in it) stores to no variable
//                  that outlives one invocation of the sequence
//   noptrhide    : no conversion between unsafe.Pointer / pointers and uintptr
//   globals      : no package-level variable is written outside package initialisation

import (
	"fmt"
	"go/types"
	"strings"

	"golang.org/x/tools/go/ssa"
)

func staticOb(name, fn, note string, ok bool, detail string) *Obligation {
	o := &Obligation{Name: name, Func: fn, Kind: "static", Pos: "ssa", Note: note, Solver: "static-analysis", Result: "unsat"}
	if !ok {
		o.Result = "sat"
		o.Stdout = detail
		o.Model = detail
	}
	return o
}

func isStaticOb(o *Obligation) bool { return o.Solver == "static-analysis" }

// outlives reports whether address value v (in function f nested in sequence closure seq)
// is rooted in a variable declared outside seq.
func rootOutsideSeq(p *Program, v ssa.Value, f, seq *ssa.Function, depth int) (bool, string) {
	if depth > 8 {
		return true, "binding chain too deep"
	}
	for {
		switch x := v.(type) {
		case *ssa.FieldAddr:
			v = x.X
			continue
		case *ssa.IndexAddr:
			v = x.X
			continue
		case *ssa.Alloc:
			return false, ""
		case *ssa.Global:
			return true, "package-level variable " + x.Name()
		case *ssa.Parameter:
			return false, "" // memory handed in by the caller of the invocation (yield arguments etc.)
		case *ssa.FreeVar:
			if f == seq {
				return true, "captured variable " + x.Name() + " of the function that created the sequence"
			}
			// find the binding in the parent's MakeClosure
			parent := f.Parent()
			idx := -1
			for i, fv := range f.FreeVars {
				if fv == x {
					idx = i
				}
			}
			if parent == nil || idx < 0 {
				return true, "unresolved free variable " + x.Name()
			}
			for _, b := range parent.Blocks {
				for _, in := range b.Instrs {
					if mc, ok := in.(*ssa.MakeClosure); ok && mc.Fn == f {
						return rootOutsideSeq(p, mc.Bindings[idx], parent, seq, depth+1)
					}
				}
			}
			return true, "no closure creation found for " + f.Name()
		default:
			return false, "" // loaded pointers: heap objects are covered by the frame obligations
		}
	}
}

func nestedFuncs(f *ssa.Function) []*ssa.Function {
	out := []*ssa.Function{f}
	for _, a := range f.AnonFuncs {
		out = append(out, nestedFuncs(a)...)
	}
	return out
}

// reiterableObligations: for each sequence closure name.
func reiterableObligations(p *Program, seqs []string) []*Obligation {
	var obs []*Obligation
	for _, name := range seqs {
		seq := p.Funcs[normName(name)]
		if seq == nil {
			obs = append(obs, staticOb("D/"+name+"/reiterable", name, "sequence closure not found", false, "function missing"))
			continue
		}
		ok := true
		var why []string
		for _, f := range nestedFuncs(seq) {
			for _, b := range f.Blocks {
				for _, in := range b.Instrs {
					st, isStore := in.(*ssa.Store)
					if !isStore {
						continue
					}
					if bad, what := rootOutsideSeq(p, st.Addr, f, seq, 0); bad {
						ok = false
						why = append(why, fmt.Sprintf("%s stores to %s at %s", f.Name(), what, p.Pos(st.Pos())))
					}
				}
			}
		}
		obs = append(obs, staticOb("D/"+name+"/reiterable", name,
			"no store to a variable that outlives one invocation of the sequence (captured variables of the creating function, globals)", ok, strings.Join(why, "; ")))
	}
	return obs
}

func libraryFuncs(p *Program) []*ssa.Function {
	var out []*ssa.Function
	seen := map[*ssa.Function]bool{}
	for _, n := range p.FuncNames() {
		f := p.Funcs[n]
		if f == nil || seen[f] || f.Blocks == nil || f.Name() == "verifAnchors" || f.Name() == "first" {
			continue
		}
		seen[f] = true
		out = append(out, f)
	}
	return out
}

// noPtrHideObligation: no unsafe.Pointer/pointer <-> uintptr conversion anywhere in the package,
// and every struct field that holds a reference has a pointer type.
func noPtrHideObligation(p *Program) *Obligation {
	ok := true
	var why []string
	for _, f := range libraryFuncs(p) {
		for _, b := range f.Blocks {
			for _, in := range b.Instrs {
				cv, isC := in.(*ssa.Convert)
				if !isC {
					continue
				}
				from, to := cv.X.Type().Underlying(), cv.Type().Underlying()
				isUintptr := func(t types.Type) bool {
					bt, ok := t.(*types.Basic)
					return ok && bt.Kind() == types.Uintptr
				}
				isPtrLike := func(t types.Type) bool {
					if _, ok := t.(*types.Pointer); ok {
						return true
					}
					bt, ok := t.(*types.Basic)
					return ok && bt.Kind() == types.UnsafePointer
				}
				if (isUintptr(from) && isPtrLike(to)) || (isPtrLike(from) && isUintptr(to)) {
					ok = false
					why = append(why, fmt.Sprintf("%s converts %s to %s at %s", f.Name(), cv.X.Type(), cv.Type(), p.Pos(cv.Pos())))
				}
			}
		}
	}
	return staticOb("noptrhide/package", "package art", "no pointer is hidden from the collector: no conversion between pointers/unsafe.Pointer and uintptr", ok, strings.Join(why, "; "))
}

// globalsObligation: the only package-level variable written is nodePools, by its initialiser.
func globalsObligation(p *Program) *Obligation {
	ok := true
	var why []string
	for _, f := range libraryFuncs(p) {
		if f.Name() == "init" || strings.HasPrefix(f.Name(), "init$") || strings.HasPrefix(f.Name(), "init#") {
			continue
		}
		for _, b := range f.Blocks {
			for _, in := range b.Instrs {
				st, isStore := in.(*ssa.Store)
				if !isStore {
					continue
				}
				v := st.Addr
				for {
					switch x := v.(type) {
					case *ssa.FieldAddr:
						v = x.X
						continue
					case *ssa.IndexAddr:
						v = x.X
						continue
					}
					break
				}
				if g, isG := v.(*ssa.Global); isG {
					ok = false
					why = append(why, fmt.Sprintf("%s writes package-level variable %s at %s", f.Name(), g.Name(), p.Pos(st.Pos())))
				}
			}
		}
	}
	// package-level variables that exist at all
	var globals []string
	for name, m := range p.SSA.Members {
		if _, isG := m.(*ssa.Global); isG && !strings.HasPrefix(name, "init$") {
			globals = append(globals, name)
		}
	}
	note := fmt.Sprintf("no function other than package initialisation writes a package-level variable (package-level variables: %s); the node pools are reached only through sync.Pool.Get/Put", strings.Join(globals, ", "))
	return staticOb("global/no_other_shared_state", "package art", note, ok, strings.Join(why, "; "))
}

// poolAccessObligation: nodePools is only ever used as the receiver of sync.Pool.Get / Put.
func poolAccessObligation(p *Program) *Obligation {
	ok := true
	var why []string
	for _, f := range libraryFuncs(p) {
		for _, b := range f.Blocks {
			for _, in := range b.Instrs {
				ia, isIA := in.(*ssa.IndexAddr)
				if !isIA {
					continue
				}
				g, isG := ia.X.(*ssa.Global)
				if !isG || g.Name() != "nodePools" {
					continue
				}
				for _, ref := range *ia.Referrers() {
					if _, isDbg := ref.(*ssa.DebugRef); isDbg {
						continue
					}
					c, isCall := ref.(*ssa.Call)
					callee := ""
					if isCall && c.Call.StaticCallee() != nil {
						callee = c.Call.StaticCallee().String()
					}
					if callee != "(*sync.Pool).Get" && callee != "(*sync.Pool).Put" {
						ok = false
						why = append(why, fmt.Sprintf("%s uses nodePools other than through Get/Put at %s", f.Name(), p.Pos(ref.Pos())))
					}
				}
			}
		}
	}
	return staticOb("global/pool_only_via_syncpool", "package art", "the shared node pools are accessed only through (*sync.Pool).Get and (*sync.Pool).Put", ok, strings.Join(why, "; "))
}

// leafLayoutObligation: the five generated leaf structs have identical memory layout
// (size, field offsets, field types up to the value type parameter), which is what the
// numeric Range relies on when it scans signed/float trees through *unsignedLeafNode[V].
func leafLayoutObligation(p *Program) *Obligation {
	names := []string{"alphaLeafNode", "unsignedLeafNode", "signedLeafNode", "floatLeafNode", "compoundLeafNode"}
	var ref string
	ok := true
	var why []string
	for _, n := range names {
		obj := p.Pkg.Types.Scope().Lookup(n)
		if obj == nil {
			ok = false
			why = append(why, "type "+n+" not found")
			continue
		}
		st, isS := obj.Type().Underlying().(*types.Struct)
		if !isS {
			ok = false
			continue
		}
		var fields []*types.Var
		var desc []string
		for i := 0; i < st.NumFields(); i++ {
			fields = append(fields, st.Field(i))
		}
		offs := offsetsOf(p, fields)
		for i, f := range fields {
			desc = append(desc, fmt.Sprintf("%s %s @%d", f.Name(), types.TypeString(f.Type(), func(*types.Package) string { return "" }), offs[i]))
		}
		d := strings.Join(desc, "; ")
		if ref == "" {
			ref = d
		} else if d != ref {
			ok = false
			why = append(why, fmt.Sprintf("%s: {%s} differs from alphaLeafNode: {%s}", n, d, ref))
		}
	}
	return staticOb("layout/generated_leaf_structs_identical", "package art", "the five generated leaf structs are layout-identical (field names, types, offsets; value field of the type parameter V): {"+ref+"}", ok, strings.Join(why, "; "))
}

func offsetsOf(p *Program, fields []*types.Var) []int64 {
	// V is a type parameter: its size is unknown; offsets are computed with V := uintptr-sized
	// placeholder only to compare the structs with each other (all use V in the same position)
	var fs []*types.Var
	for _, f := range fields {
		t := f.Type()
		if _, isTP := types.Unalias(t).(*types.TypeParam); isTP {
			t = types.Typ[types.Uintptr]
		}
		fs = append(fs, types.NewVar(0, nil, f.Name(), t))
	}
	return p.Sizes.Offsetsof(fs)
}
