package main

import (
	"fmt"
	"go/token"
	"go/types"
	"os"
	"sort"
	"strings"

	"golang.org/x/tools/go/packages"
	"golang.org/x/tools/go/ssa"
	"golang.org/x/tools/go/ssa/ssautil"
)

type Program struct {
	Dir   string
	Fset  *token.FileSet
	Pkg   *packages.Package
	SSA   *ssa.Package
	Prog  *ssa.Program
	Funcs map[string]*ssa.Function // normalised name -> function
	CF    *ContractFile
	Sizes types.Sizes
	loops map[*ssa.Function]*LoopInfo
}

func normName(s string) string {
	s = strings.ReplaceAll(s, " ", "")
	return s
}

// LoadProgram loads /repo (working tree) with -tags=verif and builds SSA with
// generic instantiation.
func LoadProgram(dir string, goarch string) (*Program, error) {
	env := os.Environ()
	if goarch != "" {
		env = append(env, "GOARCH="+goarch)
	}
	// go/packages shells out to `go list`; the repository's go.mod asks for
	// go 1.24.0 which is resolved from the local toolchain cache.
	env = append(env, "GOFLAGS=-mod=mod", "GOPROXY=off", "GOTOOLCHAIN=auto")
	filtered := env[:0]
	for _, e := range env {
		if strings.HasPrefix(e, "GOSUMDB=") {
			continue
		}
		filtered = append(filtered, e)
	}
	cfg := &packages.Config{
		Mode:       packages.LoadAllSyntax,
		Dir:        dir,
		BuildFlags: []string{"-tags=verif"},
		Env:        filtered,
	}
	pkgs, err := packages.Load(cfg, ".")
	if err != nil {
		return nil, err
	}
	if n := packages.PrintErrors(pkgs); n > 0 {
		return nil, fmt.Errorf("%d package load errors", n)
	}
	if len(pkgs) != 1 {
		return nil, fmt.Errorf("expected one package, got %d", len(pkgs))
	}
	prog, spkgs := ssautil.AllPackages(pkgs, ssa.InstantiateGenerics|ssa.GlobalDebug)
	prog.Build()
	p := &Program{Dir: dir, Fset: pkgs[0].Fset, Pkg: pkgs[0], SSA: spkgs[0], Prog: prog,
		Funcs: map[string]*ssa.Function{}, loops: map[*ssa.Function]*LoopInfo{}}
	p.Sizes = types.SizesFor("gc", "amd64")
	belongs := func(fn *ssa.Function) bool {
		for f := fn; f != nil; f = f.Parent() {
			if f.Pkg == p.SSA {
				return true
			}
			if o := f.Origin(); o != nil && o.Pkg == p.SSA {
				return true
			}
		}
		return false
	}
	add := func(fn *ssa.Function) {
		if fn == nil || !belongs(fn) || fn.Synthetic != "" && !strings.Contains(fn.Synthetic, "instance") && !strings.Contains(fn.Synthetic, "range-over-func") {
			return
		}
		name := normName(fn.RelString(p.SSA.Pkg))
		if old, dup := p.Funcs[name]; dup && old != fn && old.Blocks != nil {
			return
		}
		p.Funcs[name] = fn
		for _, an := range fn.AnonFuncs {
			name := normName(an.RelString(p.SSA.Pkg))
			p.Funcs[name] = an
			for _, an2 := range an.AnonFuncs {
				p.Funcs[normName(an2.RelString(p.SSA.Pkg))] = an2
			}
		}
	}
	for fn := range ssautil.AllFunctions(prog) {
		add(fn)
	}
	// generic methods / functions are not "reachable": enumerate package members
	for _, m := range p.SSA.Members {
		switch x := m.(type) {
		case *ssa.Function:
			add(x)
		case *ssa.Type:
			if named, ok := x.Type().(*types.Named); ok {
				for i := 0; i < named.NumMethods(); i++ {
					add(prog.FuncValue(named.Method(i)))
				}
			}
		}
	}
	return p, nil
}

func (p *Program) FuncNames() []string {
	var ns []string
	for n := range p.Funcs {
		ns = append(ns, n)
	}
	sort.Strings(ns)
	return ns
}

func (p *Program) Pos(pos token.Pos) string {
	if !pos.IsValid() {
		return "?"
	}
	q := p.Fset.Position(pos)
	f := q.Filename
	if i := strings.LastIndex(f, "/"); i >= 0 {
		f = f[i+1:]
	}
	return fmt.Sprintf("%s:%d", f, q.Line)
}

var srcCache = map[string][]string{}

// SrcAnchor returns the whitespace-free source text of the line at pos (truncated).
func (p *Program) SrcAnchor(pos token.Pos) string {
	if !pos.IsValid() {
		return "?"
	}
	q := p.Fset.Position(pos)
	lines, ok := srcCache[q.Filename]
	if !ok {
		b, err := os.ReadFile(q.Filename)
		if err == nil {
			lines = strings.Split(string(b), "\n")
		}
		srcCache[q.Filename] = lines
	}
	if q.Line-1 >= len(lines) || q.Line < 1 {
		return p.Pos(pos)
	}
	t := strings.Join(strings.Fields(lines[q.Line-1]), "")
	if i := strings.Index(t, "//"); i > 0 {
		t = t[:i]
	}
	if len(t) > 48 {
		t = t[:48]
	}
	return t
}

// Loop analysis -----------------------------------------------------------

type Loop struct {
	Head    *ssa.BasicBlock
	Blocks  map[*ssa.BasicBlock]bool
	Ordinal int // 1-based, in source order of the loop head
	Pos     token.Pos
}

type LoopInfo struct {
	Loops  []*Loop
	ByHead map[*ssa.BasicBlock]*Loop
}

func (p *Program) LoopsOf(fn *ssa.Function) *LoopInfo {
	if li, ok := p.loops[fn]; ok {
		return li
	}
	li := &LoopInfo{ByHead: map[*ssa.BasicBlock]*Loop{}}
	for _, b := range fn.Blocks {
		for _, s := range b.Succs {
			if s.Dominates(b) { // back edge b -> s
				l := li.ByHead[s]
				if l == nil {
					l = &Loop{Head: s, Blocks: map[*ssa.BasicBlock]bool{s: true}}
					li.ByHead[s] = l
					li.Loops = append(li.Loops, l)
				}
				// natural loop: nodes that reach b without passing through s
				var stack []*ssa.BasicBlock
				if !l.Blocks[b] {
					l.Blocks[b] = true
					stack = append(stack, b)
				}
				for len(stack) > 0 {
					x := stack[len(stack)-1]
					stack = stack[:len(stack)-1]
					for _, pr := range x.Preds {
						if !l.Blocks[pr] {
							l.Blocks[pr] = true
							stack = append(stack, pr)
						}
					}
				}
			}
		}
	}
	for _, l := range li.Loops {
		l.Pos = blockPos(l)
	}
	sort.SliceStable(li.Loops, func(i, j int) bool { return li.Loops[i].Pos < li.Loops[j].Pos })
	for i, l := range li.Loops {
		l.Ordinal = i + 1
	}
	p.loops[fn] = li
	return li
}

// blockPos: smallest valid source position of an instruction in the loop
// (the loop's first source line: condition or first body statement).
func blockPos(l *Loop) token.Pos {
	best := token.NoPos
	for b := range l.Blocks {
		for _, in := range b.Instrs {
			if p := in.Pos(); p.IsValid() && (best == token.NoPos || p < best) {
				best = p
			}
			if dr, ok := in.(*ssa.DebugRef); ok {
				if p := dr.Expr.Pos(); p.IsValid() && (best == token.NoPos || p < best) {
					best = p
				}
			}
		}
	}
	return best
}
