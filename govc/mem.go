package main

import (
	"fmt"
	"go/token"
	"go/types"
	"math/big"
	"strconv"

	"golang.org/x/tools/go/ssa"
)

// fieldAddr computes &x.f for pointer value base of static type ptrT.
func (ex *Exec) fieldAddr(s *State, fr *Frame, base Value, ptrT types.Type, field int, at ssa.Instruction) Value {
	elem := ex.subst(ptrT.Underlying().(*types.Pointer).Elem())
	if rv, ok := base.(RefV); ok {
		ex.emit(s, "safety", ex.obName(fr, "nil", at), Neq(rv.T, Null), at.Pos(), "nil pointer dereference (field address)")
		s.assume(Neq(rv.T, Null))
		s.instantiateAt(ex, rv.T)
	}
	if _, ok := base.(NilV); ok {
		ex.emit(s, "safety", ex.obName(fr, "nil", at), False, at.Pos(), "nil pointer dereference (field address)")
		s.dead = true
		return nil
	}
	ex.nilCheckPtr(s, fr, base, at)
	if s.dead {
		return nil
	}
	return ex.fieldAddrOf(s, base, elem, field)
}

func (ex *Exec) fieldAddrOf(s *State, base Value, elem types.Type, field int) Value {
	st := elem.Underlying().(*types.Struct)
	f := st.Field(field)
	ft := ex.subst(f.Type())
	switch b := base.(type) {
	case PtrV:
		switch b.Kind {
		case PCell:
			return PtrV{Kind: PSub, Cell: b.Cell, Path: []string{f.Name()}, Elem: ft}
		case PSub:
			return PtrV{Kind: PSub, Cell: b.Cell, Path: append(append([]string{}, b.Path...), f.Name()), Elem: ft}
		case PSlot:
			// &ref.pointer / &ref.tag of a heap slot
			return PtrV{Kind: PSlot, Obj: b.Obj, Idx: b.Idx, Field: f.Name(), Elem: ft}
		case PStruct:
			return ex.heapFieldAddr(s, b.Obj, elem, b.Field, f, ft)
		case PGlobal:
			ex.unsupported("field of global %s", b.Field)
		}
	case RefV:
		return ex.heapFieldAddr(s, b.T, elem, "", f, ft)
	}
	ex.unsupported("fieldAddr on %s", describe(base))
	return nil
}

// heapFieldAddr: address of field f of heap object obj whose struct type is elem.
// prefix is the flattened path prefix for nested (non-header) structs.
func (ex *Exec) heapFieldAddr(s *State, obj Term, elem types.Type, prefix string, f *types.Var, ft types.Type) Value {
	l := ex.layouts.Of(elem)
	fi := l.Fields[f.Name()]
	name := fi.Name
	if prefix != "" {
		name = prefix + "." + f.Name()
	}
	switch fi.Kind {
	case FScalar, FIface:
		return PtrV{Kind: PField, Obj: obj, Field: name, Elem: ft}
	case FSlot:
		return PtrV{Kind: PSlot, Obj: obj, Idx: IntC(int64(fi.Base)), Elem: ft}
	case FSlotArr:
		return PtrV{Kind: PSlotArr, Obj: obj, Idx: IntC(int64(fi.Base)), N: fi.N, Elem: ft}
	case FByteArr:
		return PtrV{Kind: PByteArr, Obj: obj, Idx: IntC(int64(fi.Base)), N: fi.N, Elem: ft}
	case FBytePtr:
		return PtrV{Kind: PField, Obj: obj, Field: name, Elem: ft}
	case FSlice:
		return PtrV{Kind: PField, Obj: obj, Field: name, Elem: ft}
	case FStruct:
		if baseTypeName(ft) == "node" {
			// embedded header shared by all inner node classes
			return PtrV{Kind: PStruct, Obj: obj, Field: "", Elem: ft}
		}
		return PtrV{Kind: PStruct, Obj: obj, Field: name, Elem: ft}
	}
	ex.unsupported("heapFieldAddr kind %d", fi.Kind)
	return nil
}

func (ex *Exec) indexAddr(s *State, fr *Frame, x *ssa.IndexAddr) Value {
	base := ex.val(fr, x.X)
	idxV := ex.val(fr, x.Index).(IntV)
	idx := ex.idxTerm(idxV)
	switch b := base.(type) {
	case PtrV:
		switch b.Kind {
		case PSlotArr, PByteArr:
			ex.boundsCheck(s, fr, idx, IntC(int64(b.N)), x)
			k := PSlot
			var ext Term
			if b.Kind == PByteArr {
				k = PByte
				ext = ISub(IntC(int64(b.N)), idx)
			}
			return PtrV{Kind: k, Obj: b.Obj, Idx: IAdd(b.Idx, idx), Elem: ex.elemOf(x.X.Type()), Ext: ext}
		case PGlobal:
			c, ok := idx.IntConst()
			if !ok {
				ex.unsupported("symbolic index into global %s", b.Field)
			}
			return PtrV{Kind: PGlobal, Field: fmt.Sprintf("%s[%d]", b.Field, c.Int64()), Elem: ex.elemOf(x.X.Type())}
		case PCell, PSub:
			// pointer to local array
			c, ok := idx.IntConst()
			if !ok {
				ex.unsupported("symbolic index into local array at %s", ex.prog.Pos(x.Pos()))
			}
			arr := ex.loadPtr(s, b).(ArrV)
			ex.boundsCheck(s, fr, idx, IntC(int64(len(arr.Elems))), x)
			return PtrV{Kind: PSub, Cell: b.Cell, Path: append(append([]string{}, b.Path...), strconv.Itoa(int(c.Int64()))), Elem: arr.Elem}
		}
	case SliceV:
		ex.boundsCheck(s, fr, idx, b.Len, x)
		switch b.Kind {
		case SlBytes:
			return PtrV{Kind: PByte, Obj: b.Obj, Idx: IAdd(b.Off, idx), Elem: b.Elem}
		case SlSlots:
			return PtrV{Kind: PSlot, Obj: b.Obj, Idx: IAdd(b.Off, idx), Elem: b.Elem}
		case SlSeq:
			// address of a sequence element: only loads occur (q[len(q)-1])
			return seqElemPtr{seq: b, idx: idx}
		}
	}
	ex.unsupported("indexAddr on %s at %s", describe(base), ex.prog.Pos(x.Pos()))
	return nil
}

// seqElemPtr is the address of an element of a mathematical sequence (load-only).
type seqElemPtr struct {
	seq SliceV
	idx Term
}

func (seqElemPtr) vkind() string { return "seqelem" }

func (ex *Exec) elemOf(t types.Type) types.Type {
	switch u := t.Underlying().(type) {
	case *types.Pointer:
		return ex.elemOf(u.Elem())
	case *types.Array:
		return u.Elem()
	case *types.Slice:
		return u.Elem()
	}
	return nil
}

func (ex *Exec) boundsCheck(s *State, fr *Frame, idx, n Term, at ssa.Instruction) {
	g := And(ICmp("<=", IntC(0), idx), ICmp("<", idx, n))
	ex.check(s, "safety", ex.obName(fr, "index", at), g, at.Pos(), "index in range")
}

func (ex *Exec) indexVal(s *State, fr *Frame, x *ssa.Index) Value {
	base := ex.val(fr, x.X)
	idxV := ex.val(fr, x.Index).(IntV)
	idx := ex.idxTerm(idxV)
	switch b := base.(type) {
	case ArrV:
		ex.boundsCheck(s, fr, idx, IntC(int64(len(b.Elems))), x)
		if c, ok := idx.IntConst(); ok {
			return b.Elems[c.Int64()]
		}
		// symbolic index into array value: ite chain (small arrays only)
		res := b.Elems[len(b.Elems)-1]
		for i := len(b.Elems) - 2; i >= 0; i-- {
			res = ex.iteValue(Eq(idx, IntC(int64(i))), b.Elems[i], res)
		}
		return res
	case SliceV:
		if b.IsStr {
			ex.boundsCheck(s, fr, idx, b.Len, x)
			return s.loadByte(ex, b.Obj, IAdd(b.Off, idx))
		}
	}
	ex.unsupported("index on %s", describe(base))
	return nil
}

func (ex *Exec) iteValue(c Term, a, b Value) Value {
	switch x := a.(type) {
	case IntV:
		return IntV{T: Ite(c, x.T, b.(IntV).T), W: x.W, Signed: x.Signed}
	case BoolV:
		return BoolV{T: Ite(c, x.T, b.(BoolV).T)}
	case RefV:
		return RefV{T: Ite(c, x.T, b.(RefV).T), Typ: x.Typ}
	case StructV:
		n := StructV{Typ: x.Typ, Names: x.Names, Fields: map[string]Value{}}
		for _, f := range x.Names {
			n.Fields[f] = ex.iteValue(c, x.Fields[f], b.(StructV).Fields[f])
		}
		return n
	}
	ex.unsupported("ite of %s", describe(a))
	return nil
}

// ---------------------------------------------------------------------------
// load / store

func (ex *Exec) load(s *State, fr *Frame, addr Value, typ types.Type, pos token.Pos, at ssa.Instruction) Value {
	switch p := addr.(type) {
	case PtrV:
		return ex.loadPtr(s, p)
	case seqElemPtr:
		if p.seq.SeqP.S != "" {
			tg := IntV{T: Select(p.seq.SeqT, p.idx), W: 8}
			ex.assumeRange(s, tg)
			ptr := Select(p.seq.SeqP, p.idx)
			ex.assumeAllocated(s, ptr)
			return ex.mkNodeRef(RefV{T: ptr}, tg)
		}
		w, sg, _ := intInfo(p.seq.Elem)
		v := IntV{T: Select(p.seq.SeqT, p.idx), W: w, Signed: sg}
		ex.assumeRange(s, v)
		return v
	case RefV:
		// load of a whole heap struct through *T: only the header struct 'node' and nodeRef-free structs
		ex.emit(s, "safety", ex.obName(fr, "nil", at), Neq(p.T, Null), pos, "nil pointer dereference")
		s.assume(Neq(p.T, Null))
		return ex.loadStruct(s, p.T, ex.subst(typ), "")
	case NilV:
		ex.emit(s, "safety", ex.obName(fr, "nil", at), False, pos, "nil pointer dereference")
		s.dead = true
		return nil
	}
	ex.unsupported("load through %s at %s", describe(addr), ex.prog.Pos(pos))
	return nil
}

func (ex *Exec) loadPtr(s *State, p PtrV) Value {
	if p.Field == "reinterpret" && (p.Kind == PCell || p.Kind == PSub) {
		return ex.reinterpretLoad(s, p)
	}
	switch p.Kind {
	case PCell:
		v, ok := s.cells[p.Cell]
		if !ok {
			ex.unsupported("load of unknown cell %d", p.Cell)
		}
		return v
	case PSub:
		if p.Field == "reinterpret" {
			return ex.reinterpretLoad(s, p)
		}
		v := s.cells[p.Cell]
		for _, step := range p.Path {
			switch x := v.(type) {
			case StructV:
				v = x.Fields[step]
			case ArrV:
				i, _ := strconv.Atoi(step)
				v = x.Elems[i]
			default:
				ex.unsupported("path step %s into %s", step, describe(v))
			}
		}
		return v
	case PField:
		if p.Field == "reinterpret" {
			return ex.reinterpretLoad(s, p)
		}
		switch u := ex.subst(p.Elem).Underlying().(type) {
		case *types.Pointer:
			if isByteType(u.Elem()) {
				obj := s.loadScalar(ex, p.Field+".obj", types.Typ[types.UnsafePointer], p.Obj).(RefV)
				off := s.loadScalar(ex, p.Field+".off", types.Typ[types.Int], p.Obj).(IntV)
				offT := off.T
				if offT.Sort != SInt {
					offT = ex.idxTerm(off)
				}
				return PtrV{Kind: PByte, Obj: obj.T, Idx: offT, Elem: u.Elem()}
			}
		case *types.Slice:
			return ex.loadSliceField(s, p)
		case *types.Basic:
			if u.Kind() == types.String {
				sl := ex.loadSliceField(s, p).(SliceV)
				sl.IsStr = true
				return sl
			}
		}
		return s.loadScalar(ex, p.Field, ex.subst(p.Elem), p.Obj)
	case PSlot:
		sv := s.loadSlot(ex, p.Obj, p.Idx)
		if p.Field != "" {
			return sv.Fields[p.Field]
		}
		return sv
	case PByte:
		return s.loadByte(ex, p.Obj, p.Idx)
	case PByteArr:
		av := ArrV{Elem: types.Typ[types.Uint8]}
		for i := 0; i < p.N; i++ {
			av.Elems = append(av.Elems, s.loadByte(ex, p.Obj, IAdd(p.Idx, IntC(int64(i)))))
		}
		return av
	case PSlotArr:
		av := ArrV{Elem: ex.nodeRefType}
		for i := 0; i < p.N; i++ {
			av.Elems = append(av.Elems, s.loadSlot(ex, p.Obj, IAdd(p.Idx, IntC(int64(i)))))
		}
		return av
	case PStruct:
		return ex.loadStruct(s, p.Obj, ex.subst(p.Elem), p.Field)
	case PGlobal:
		if st, ok := p.Elem.Underlying().(*types.Struct); ok && st.NumFields() == 0 {
			return StructV{Typ: p.Elem, Fields: map[string]Value{}}
		}
		ex.unsupported("load of global %s", p.Field)
	}
	ex.unsupported("loadPtr kind %d", p.Kind)
	return nil
}

func (ex *Exec) loadSliceField(s *State, p PtrV) Value {
	obj := s.loadScalar(ex, p.Field+".obj", types.Typ[types.UnsafePointer], p.Obj).(RefV)
	get := func(n string) Term {
		v := s.loadScalar(ex, p.Field+"."+n, types.Typ[types.Int], p.Obj).(IntV)
		return ex.idxTerm(v)
	}
	return SliceV{Kind: SlBytes, Obj: obj.T, Off: get("off"), Len: get("len"), Cap: get("cap"), Elem: types.Typ[types.Uint8]}
}

// loadStruct reads all fields of a heap struct into a StructV.
func (ex *Exec) loadStruct(s *State, obj Term, typ types.Type, prefix string) Value {
	st, ok := typ.Underlying().(*types.Struct)
	if !ok {
		ex.unsupported("loadStruct of %s", typ)
	}
	sv := StructV{Typ: typ, Fields: map[string]Value{}}
	for i := 0; i < st.NumFields(); i++ {
		f := st.Field(i)
		p := ex.heapFieldAddr(s, obj, typ, prefix, f, ex.subst(f.Type())).(PtrV)
		sv.Names = append(sv.Names, f.Name())
		sv.Fields[f.Name()] = ex.loadPtr(s, p)
	}
	return sv
}

// reinterpretLoad: *(*T)(unsafe.Pointer(&local)) -- bit reinterpretation of a local of the same size.
func (ex *Exec) reinterpretLoad(s *State, p PtrV) Value {
	q := p
	q.Field = ""
	if len(q.Path) == 0 && (q.Kind == PSub || q.Kind == PCell) {
		q.Kind = PCell
	}
	v := ex.loadPtr(s, q)
	to := ex.subst(p.Elem)
	if tp, ok := types.Unalias(p.Elem).(*types.TypeParam); ok && ex.bindings[tp.Obj().Name()] == nil {
		// *(*K)(unsafe.Pointer(&i)) in an instantiated function: K is concrete there; in generic code unsupported
		ex.unsupported("reinterpretation to unbound type parameter %s", p.Elem)
	}
	bits := func(v Value) (Term, int) {
		switch x := v.(type) {
		case IntV:
			if x.T.Sort == SInt {
				ex.unsupported("bit reinterpretation in int mode")
			}
			return x.T, x.W
		case FloatV:
			return x.Bits, x.W
		}
		ex.unsupported("reinterpretation of %s", describe(v))
		return Term{}, 0
	}
	b, w := bits(v)
	if tw, sg, ok := intInfo(to); ok {
		if tw != w {
			ex.unsupported("reinterpretation changes size %d -> %d", w, tw)
		}
		return IntV{T: b, W: tw, Signed: sg}
	}
	if fw, ok := floatWidth(to); ok {
		if fw != w {
			ex.unsupported("reinterpretation changes size %d -> %d", w, fw)
		}
		return FloatV{Bits: b, W: fw}
	}
	ex.unsupported("reinterpretation to %s", to)
	return nil
}

func (ex *Exec) store(s *State, fr *Frame, addr Value, v Value, vt types.Type, pos token.Pos, at ssa.Instruction) {
	if at != nil && fr != nil {
		ex.nilCheckPtr(s, fr, addr, at)
		if s.dead {
			return
		}
	}
	switch p := addr.(type) {
	case PtrV:
		if fr != nil && fr.top || true {
			ex.noteAssigned(p)
		}
		ex.storeVal(s, p, v, vt)
		if p.Kind == PCell {
			// keep the source name of the cell current
			for name, cell := range ex.cellNames(fr) {
				if cell == p.Cell {
					s.names[name] = s.cells[cell]
				}
			}
		}
		return
	case RefV:
		ex.emit(s, "safety", ex.obName(fr, "nil", at), Neq(p.T, Null), pos, "nil pointer dereference (store)")
		s.assume(Neq(p.T, Null))
		ex.storeStruct(s, p.T, ex.subst(vt), "", v)
		return
	}
	ex.unsupported("store through %s at %s", describe(addr), ex.prog.Pos(pos))
}

func (ex *Exec) noteAssigned(p PtrV) {
	switch p.Kind {
	case PField:
		ex.assignedHeaps[p.Field] = true
	case PSlot, PSlotArr:
		ex.assignedHeaps["SP"] = true
		ex.assignedHeaps["ST"] = true
	case PByte, PByteArr:
		ex.assignedHeaps["B"] = true
	}
}

func (ex *Exec) storeVal(s *State, p PtrV, v Value, vt types.Type) {
	if nv, ok := v.(NilV); ok {
		v = ex.zero(ex.subst(p.Elem))
		_ = nv
	}
	switch p.Kind {
	case PCell:
		s.cells[p.Cell] = v
	case PSub:
		s.cells[p.Cell] = ex.updatePath(s.cells[p.Cell], p.Path, v)
	case PField:
		switch u := ex.subst(p.Elem).Underlying().(type) {
		case *types.Pointer:
			if isByteType(u.Elem()) {
				bp, ok := v.(PtrV)
				if !ok {
					// zero value
					s.storeScalar(ex, p.Field+".obj", types.Typ[types.UnsafePointer], p.Obj, RefV{T: Null})
					s.storeScalar(ex, p.Field+".off", types.Typ[types.Int], p.Obj, ex.intConst(big.NewInt(0), 64, true))
					return
				}
				s.storeScalar(ex, p.Field+".obj", types.Typ[types.UnsafePointer], p.Obj, RefV{T: bp.Obj})
				s.storeScalar(ex, p.Field+".off", types.Typ[types.Int], p.Obj, ex.fromIdx(bp.Idx))
				return
			}
		case *types.Basic:
			if sl, ok := v.(SliceV); ok && u.Kind() == types.String {
				s.storeScalar(ex, p.Field+".obj", types.Typ[types.UnsafePointer], p.Obj, RefV{T: sl.Obj})
				s.storeScalar(ex, p.Field+".off", types.Typ[types.Int], p.Obj, ex.fromIdx(sl.Off))
				s.storeScalar(ex, p.Field+".len", types.Typ[types.Int], p.Obj, ex.fromIdx(sl.Len))
				s.storeScalar(ex, p.Field+".cap", types.Typ[types.Int], p.Obj, ex.fromIdx(sl.Len))
				return
			}
		case *types.Slice:
			sl := v.(SliceV)
			s.storeScalar(ex, p.Field+".obj", types.Typ[types.UnsafePointer], p.Obj, RefV{T: sl.Obj})
			s.storeScalar(ex, p.Field+".off", types.Typ[types.Int], p.Obj, ex.fromIdx(sl.Off))
			s.storeScalar(ex, p.Field+".len", types.Typ[types.Int], p.Obj, ex.fromIdx(sl.Len))
			s.storeScalar(ex, p.Field+".cap", types.Typ[types.Int], p.Obj, ex.fromIdx(sl.Cap))
			return
		}
		s.storeScalar(ex, p.Field, ex.subst(p.Elem), p.Obj, v)
	case PSlot:
		if p.Field != "" {
			cur := s.loadSlot(ex, p.Obj, p.Idx)
			s.storeSlot(ex, p.Obj, p.Idx, cur.with(p.Field, v))
			return
		}
		s.storeSlot(ex, p.Obj, p.Idx, v.(StructV))
	case PByte:
		s.storeByte(ex, p.Obj, p.Idx, v.(IntV))
	case PByteArr:
		av := v.(ArrV)
		for i := 0; i < p.N; i++ {
			s.storeByte(ex, p.Obj, IAdd(p.Idx, IntC(int64(i))), av.Elems[i].(IntV))
		}
	case PSlotArr:
		av := v.(ArrV)
		for i := 0; i < p.N; i++ {
			s.storeSlot(ex, p.Obj, IAdd(p.Idx, IntC(int64(i))), av.Elems[i].(StructV))
		}
	case PStruct:
		ex.storeStruct(s, p.Obj, ex.subst(p.Elem), p.Field, v)
	default:
		ex.unsupported("store kind %d", p.Kind)
	}
}

// fromIdx wraps an Int index term as a Go int value in the current mode.
func (ex *Exec) fromIdx(t Term) IntV {
	if ex.mode == ModeInt {
		return IntV{T: t, W: 64, Signed: true}
	}
	if c, ok := t.IntConst(); ok {
		return IntV{T: BVC(c, 64), W: 64, Signed: true}
	}
	return IntV{T: App(BVSort(64), "(_ int2bv 64)", t), W: 64, Signed: true}
}

func (ex *Exec) storeStruct(s *State, obj Term, typ types.Type, prefix string, v Value) {
	st := typ.Underlying().(*types.Struct)
	sv, ok := v.(StructV)
	if !ok {
		ex.unsupported("storeStruct of %s", describe(v))
	}
	for i := 0; i < st.NumFields(); i++ {
		f := st.Field(i)
		p := ex.heapFieldAddr(s, obj, typ, prefix, f, ex.subst(f.Type())).(PtrV)
		ex.noteAssigned(p)
		ex.storeVal(s, p, sv.Fields[f.Name()], f.Type())
	}
}

func (ex *Exec) updatePath(v Value, path []string, nv Value) Value {
	if len(path) == 0 {
		return nv
	}
	switch x := v.(type) {
	case StructV:
		return x.with(path[0], ex.updatePath(x.Fields[path[0]], path[1:], nv))
	case ArrV:
		i, _ := strconv.Atoi(path[0])
		ne := append([]Value{}, x.Elems...)
		ne[i] = ex.updatePath(x.Elems[i], path[1:], nv)
		return ArrV{Elem: x.Elem, Elems: ne}
	}
	ex.unsupported("updatePath into %s", describe(v))
	return nil
}

// ---------------------------------------------------------------------------
// slices

func (ex *Exec) sliceOp(s *State, fr *Frame, x *ssa.Slice) Value {
	base := ex.val(fr, x.X)
	get := func(v ssa.Value) (Term, bool) {
		if v == nil {
			return Term{}, false
		}
		return ex.idxTerm(ex.val(fr, v).(IntV)), true
	}
	lo, hasLo := get(x.Low)
	hi, hasHi := get(x.High)
	mx, hasMax := get(x.Max)
	if !hasLo {
		lo = IntC(0)
	}
	if g, ok := base.(PtrV); ok && g.Kind == PGlobal {
		// package-level byte array: a pre-existing (not fresh) byte object
		if at, isArr := ex.subst(g.Elem).Underlying().(*types.Array); isArr && isByteType(at.Elem()) {
			obj := ex.st.Const("global."+sanitize(g.Field), SRef)
			s.assumeOnce(Not(Eq(obj, Null)))
			s.assumeOnce(Select(s.H(ex, "alloc", ArrSort(SRef, SBool)), obj))
			s.assumeOnce(Eq(Select(s.H(ex, "blen", ArrSort(SRef, SInt)), obj), IntC(at.Len())))
			s.assumeOnce(Eq(atypeOf(ex.st, obj), IntC(bytesTypeID)))
			base = PtrV{Kind: PByteArr, Obj: obj, Idx: IntC(0), N: int(at.Len()), Elem: g.Elem}
		}
	}
	if lp, ok := base.(PtrV); ok && (lp.Kind == PCell || lp.Kind == PSub) {
		// slice of a local array (append's varargs): a sequence holding the array's elements
		// (also make([]T, n, c) with constant n <= c, which go/ssa lowers to new [c]T sliced [:n];
		// sequences are mathematical values here - appends never alias - so the spare capacity is
		// not modelled)
		loC, hiC := int64(0), int64(-1)
		constBounds := !hasMax
		if hasLo {
			if c, ok := lo.IntConst(); ok {
				loC = c.Int64()
			} else {
				constBounds = false
			}
		}
		if hasHi {
			if c, ok := hi.IntConst(); ok {
				hiC = c.Int64()
			} else {
				constBounds = false
			}
		}
		if av, isArr := ex.loadPtr(s, lp).(ArrV); isArr && constBounds {
			if hiC < 0 || hiC > int64(len(av.Elems)) {
				hiC = int64(len(av.Elems))
			}
			if loC > hiC {
				loC = hiC
			}
			av.Elems = av.Elems[loC:hiC]
			if isNodeRef(av.Elem) {
				sq := ex.zero(types.NewSlice(av.Elem)).(SliceV)
				for i, e := range av.Elems {
					sv := e.(StructV)
					sq.SeqP = Store(sq.SeqP, IntC(int64(i)), sv.Fields["pointer"].(RefV).T)
					sq.SeqT = Store(sq.SeqT, IntC(int64(i)), sv.Fields["tag"].(IntV).T)
				}
				sq.Len = IntC(int64(len(av.Elems)))
				return sq
			}
			if _, _, isInt := intInfo(av.Elem); isInt && !isByteType(av.Elem) {
				sq := ex.zero(types.NewSlice(av.Elem)).(SliceV)
				for i, e := range av.Elems {
					sq.SeqT = Store(sq.SeqT, IntC(int64(i)), ex.idxTerm(e.(IntV)))
				}
				sq.Len = IntC(int64(len(av.Elems)))
				return sq
			}
		}
	}
	switch b := base.(type) {
	case PtrV:
		if b.Kind == PSlotArr || b.Kind == PByteArr {
			n := IntC(int64(b.N))
			if !hasHi {
				hi = n
			}
			capT := n
			if hasMax {
				capT = mx
			}
			ex.check(s, "safety", ex.obName(fr, "slice", x), And(ICmp("<=", IntC(0), lo), ICmp("<=", lo, hi), ICmp("<=", hi, capT), ICmp("<=", capT, n)), x.Pos(), "slice bounds in range")
			k := SlSlots
			if b.Kind == PByteArr {
				k = SlBytes
			}
			return SliceV{Kind: k, Obj: b.Obj, Off: IAdd(b.Idx, lo), Len: ISub(hi, lo), Cap: ISub(capT, lo), Elem: ex.elemOf(x.X.Type()), MaxLen: b.N}
		}
	case SliceV:
		limit := b.Cap
		if b.IsStr || b.Kind == SlSeq {
			limit = b.Len // sequences carry no capacity: re-slicing never extends them
		}
		if !hasHi {
			hi = b.Len
		}
		capT := limit
		if hasMax {
			capT = mx
		}
		ex.check(s, "safety", ex.obName(fr, "slice", x), And(ICmp("<=", IntC(0), lo), ICmp("<=", lo, hi), ICmp("<=", hi, capT), ICmp("<=", capT, limit)), x.Pos(), "slice bounds in range")
		n := b
		n.Len = ISub(hi, lo)
		n.Cap = ISub(capT, lo)
		switch b.Kind {
		case SlBytes, SlSlots:
			n.Off = IAdd(b.Off, lo)
		case SlSeq:
			if l0, ok := lo.IntConst(); !ok || l0.Sign() != 0 {
				ex.unsupported("re-slicing a sequence from a non-zero low bound")
			}
		}
		return n
	}
	ex.unsupported("slice of %s at %s", describe(base), ex.prog.Pos(x.Pos()))
	return nil
}

func (ex *Exec) makeSlice(s *State, fr *Frame, x *ssa.MakeSlice) Value {
	elem := x.Type().Underlying().(*types.Slice).Elem()
	if !isByteType(elem) {
		ex.unsupported("make of []%s", elem)
	}
	ln := ex.idxTerm(ex.val(fr, x.Len).(IntV))
	cp := ex.idxTerm(ex.val(fr, x.Cap).(IntV))
	ex.check(s, "safety", ex.obName(fr, "makeslice", x), And(ICmp("<=", IntC(0), ln), ICmp("<=", ln, cp)), x.Pos(), "make: len in range")
	obj := s.newObject(ex, "bytes", bytesTypeID)
	bl := s.H(ex, "blen", ArrSort(SRef, SInt))
	s.setH("blen", Store(bl, obj, cp))
	b := s.H(ex, "B", ex.bSort())
	zero := ex.intConst(big.NewInt(0), 8, false).T
	s.setH("B", Store(b, obj, Term{fmt.Sprintf("((as const %s) %s)", ArrSort(SInt, ex.byteSort()), zero.S), ArrSort(SInt, ex.byteSort())}))
	return SliceV{Kind: SlBytes, Obj: obj, Off: IntC(0), Len: ln, Cap: cp, Elem: elem}
}
