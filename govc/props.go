package main

func codecFuncs() []FuncCheck {
	var out []FuncCheck
	for _, t := range []string{"uint8", "uint16", "uint32", "uint64", "uint"} {
		out = append(out, FuncCheck{Fn: "(UnsignedBinaryKey[" + t + "]).Transform", Layer: "A"})
	}
	for _, t := range []string{"int8", "int16", "int32", "int64", "int"} {
		out = append(out, FuncCheck{Fn: "(SignedBinaryKey[" + t + "]).Transform", Layer: "A"})
	}
	for _, t := range []string{"float32", "float64"} {
		out = append(out, FuncCheck{Fn: "(FloatBinaryKey[" + t + "]).Transform", Layer: "A"})
	}
	return out
}

func node4Funcs() []FuncCheck {
	var out []FuncCheck
	for _, f := range []string{"searchNode4", "insertPosNode4", "getAtPos", "setAtPos", "shiftLeftClear", "shiftRightClear", "construct", "deconstruct"} {
		out = append(out, FuncCheck{Fn: f, Layer: "A"})
	}
	return out
}

func propDefs() map[string]*PropDef {
	m := map[string]*PropDef{}
	m["C07"] = &PropDef{
		ID:    "C07",
		Funcs: codecFuncs(),
		Floor: 90,
		Assumptions: []string{
			"glue (paper, lemma tuple_lex): concatenations of fixed-width order-embedding encodings order tuples lexicographically - follows from the per-type order/injectivity obligations, not machine-checked here",
			"uint/int are verified for the 64-bit bits.UintSize of this platform (the 32-bit branches are dead code here)",
			"float32->float64 conversion modelled by IEEE-754 round-to-nearest-even (exact for widening); NaN payloads unconstrained",
		},
		DesignRef: "DESIGN.md section 5 C07",
	}
	m["C10"] = &PropDef{
		ID:    "C10",
		Funcs: append(node4Funcs(), node16OtherFuncs()...),
		Asm:   true,
		Floor: 20,
		Trusted: []string{
			"amd64 instruction table of govc/asm.go (MOVQ/MOVB/MOVD, PXOR, PSHUFB, VMOVDQU, PCMPEQB, PCMPGTB, PMOVMSKB, SALW, SUBW, ANDW, CMPW/JEQ, TZCNTW, RET; Intel SDM semantics incl. 5-bit SALW count mask and partial-register writes)",
			"node16_arm64.s is not the code that runs here and is not verified",
		},
		DesignRef: "DESIGN.md section 5 C10",
	}
	return m
}

func node16OtherFuncs() []FuncCheck {
	return []FuncCheck{
		{Fn: "searchNode16", Layer: "A", Goarch: "riscv64"},
		{Fn: "insertPosNode16", Layer: "A", Goarch: "riscv64"},
	}
}
