package main

func codecFuncs() []FuncCheck {
	var out []FuncCheck
	for _, t := range []string{"uint8", "uint16", "uint32", "uint64", "uint"} {
		out = append(out, FuncCheck{Fn: "(UnsignedBinaryKey[" + t + "]).Transform", Layer: "A"})
	}
	for _, t := range []string{"int8", "int16", "int32", "int64", "int"} {
		out = append(out, FuncCheck{Fn: "(SignedBinaryKey[" + t + "]).Transform", Layer: "A"})
	}
	for _, t := range []string{"float32", "float64"} {
		out = append(out, FuncCheck{Fn: "(FloatBinaryKey[" + t + "]).Transform", Layer: "A"})
	}
	return out
}

func node4Funcs() []FuncCheck {
	var out []FuncCheck
	for _, f := range []string{"searchNode4", "insertPosNode4", "getAtPos", "setAtPos", "shiftLeftClear", "shiftRightClear", "construct", "deconstruct"} {
		out = append(out, FuncCheck{Fn: f, Layer: "A"})
	}
	return out
}

func propDefs() map[string]*PropDef {
	m := map[string]*PropDef{}
	m["C07"] = &PropDef{
		ID:    "C07",
		Funcs: codecFuncs(),
		Floor: 90,
		Assumptions: []string{
			"glue (paper, lemma tuple_lex): concatenations of fixed-width order-embedding encodings order tuples lexicographically - follows from the per-type order/injectivity obligations, not machine-checked here",
			"uint/int are verified for the 64-bit bits.UintSize of this platform (the 32-bit branches are dead code here)",
			"float32->float64 conversion modelled by IEEE-754 round-to-nearest-even (exact for widening); NaN payloads unconstrained",
		},
		DesignRef: "DESIGN.md section 5 C07",
	}
	m["C10"] = &PropDef{
		ID:    "C10",
		Funcs: append(append(node4Funcs(), node16OtherFuncs()...), nodeFuncs(nil)...),
		Asm:   true,
		Lemmas: true,
		Floor: 1500,
		Trusted: []string{
			"amd64 instruction table of govc/asm.go (MOVQ/MOVB/MOVD, PXOR, PSHUFB, VMOVDQU, PCMPEQB, PCMPGTB, PMOVMSKB, SALW, SUBW, ANDW, CMPW/JEQ, TZCNTW, RET; Intel SDM semantics incl. 5-bit SALW count mask and partial-register writes)",
			"node16_arm64.s is not the code that runs here and is not verified",
		},
		DesignRef: "DESIGN.md section 5 C10",
	}
	m["C12"] = &PropDef{
		ID: "C12",
		// clear-before-release and relink-before-release at every Put site, Zero_c postconditions of
		// clear(), 'replaced' clauses (a node that leaves the tree is zeroed), and the frames that
		// confine every node operation to its own node, the relinked slot and fresh pool nodes
		Funcs: nodeFuncs([]string{`/put@`, `/zero`, `/replaced`, `/frame`, `/merge_link`, `clear/`}),
		Floor: 150,
		Trusted: []string{
			"sync.Pool model: Get returns an object nobody else references, of the pool's class; it is all-zero because every Put site is proved to release only zeroed nodes (put_zero) that the tree no longer links (put_unlinked)",
		},
		Assumptions: []string{
			"glue (frame rule, paper): every node operation writes only its own node, the slot it relinks and nodes fresh from the pool, hence operations on one tree cannot change what another tree reads; the tree-level ownership clause (a tree's nodes are referenced from that tree only) is part of WF and is assumed here",
			"'a tree emptied by deletions behaves like a new one' is claimed only through Delete resetting root to the zero nodeRef on the last key (tree-level obligation C/Delete/empty_is_initial when registered)",
		},
		DesignRef: "DESIGN.md section 5 C12",
	}
	return m
}

func nodeFuncs(include []string) []FuncCheck {
	var out []FuncCheck
	for _, f := range []string{"(*node4).clear", "(*node16).clear", "(*node48).clear", "(*node256).clear",
		"(*nodeRef).findChild", "(*nodeRef).addChild", "(*nodeRef).deleteChild",
		"(*node4).addChild", "(*node16).addChild", "(*node48).addChild", "(*node256).addChild",
		"(*node4).deleteChild", "(*node16).deleteChild", "(*node48).deleteChild", "(*node256).deleteChild"} {
		out = append(out, FuncCheck{Fn: f, Layer: "B", Include: include})
	}
	return out
}

func node16OtherFuncs() []FuncCheck {
	return []FuncCheck{
		{Fn: "searchNode16", Layer: "A", Goarch: "riscv64"},
		{Fn: "insertPosNode16", Layer: "A", Goarch: "riscv64"},
	}
}
