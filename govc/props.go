package main

import "strings"

func codecFuncs() []FuncCheck {
	var out []FuncCheck
	for _, t := range []string{"uint8", "uint16", "uint32", "uint64", "uint"} {
		out = append(out, FuncCheck{Fn: "(UnsignedBinaryKey[" + t + "]).Transform", Layer: "A"})
	}
	for _, t := range []string{"int8", "int16", "int32", "int64", "int"} {
		out = append(out, FuncCheck{Fn: "(SignedBinaryKey[" + t + "]).Transform", Layer: "A"})
	}
	for _, t := range []string{"float32", "float64"} {
		out = append(out, FuncCheck{Fn: "(FloatBinaryKey[" + t + "]).Transform", Layer: "A"})
	}
	return out
}

func node4Funcs() []FuncCheck {
	var out []FuncCheck
	for _, f := range []string{"searchNode4", "insertPosNode4", "getAtPos", "setAtPos", "shiftLeftClear", "shiftRightClear", "construct", "deconstruct"} {
		out = append(out, FuncCheck{Fn: f, Layer: "A"})
	}
	return out
}

func propDefs() map[string]*PropDef {
	m := map[string]*PropDef{}
	m["C07"] = &PropDef{
		ID:    "C07",
		Funcs: codecFuncs(),
		Floor: 90,
		Assumptions: []string{
			"glue (paper, lemma tuple_lex): concatenations of fixed-width order-embedding encodings order tuples lexicographically - follows from the per-type order/injectivity obligations, not machine-checked here",
			"uint/int are verified for the 64-bit bits.UintSize of this platform (the 32-bit branches are dead code here)",
			"float32->float64 conversion modelled by IEEE-754 round-to-nearest-even (exact for widening); NaN payloads unconstrained",
		},
		DesignRef: "DESIGN.md section 5 C07",
	}
	m["C10"] = &PropDef{
		ID:     "C10",
		Funcs:  append(append(node4Funcs(), node16OtherFuncs()...), nodeFuncs(nil)...),
		Asm:    true,
		Lemmas: true,
		Floor:  1500,
		Trusted: []string{
			"amd64 instruction table of govc/asm.go (MOVQ/MOVB/MOVD, PXOR, PSHUFB, VMOVDQU, PCMPEQB, PCMPGTB, PMOVMSKB, SALW, SUBW, ANDW, CMPW/JEQ, TZCNTW, RET; Intel SDM semantics incl. 5-bit SALW count mask and partial-register writes)",
			"node16_arm64.s is not the code that runs here and is not verified",
		},
		DesignRef: "DESIGN.md section 5 C10",
	}
	safetyInc := []string{`^safety/`, `/reach@`, `^cast/`, `^extent/`, `/call:`, `/closure:`, `/captures/`, `/loop\d+/`, `/pure`, `/noop_frame`, `/result`, `/live`, `/none_iff_empty`}
	m["C01"] = &PropDef{
		ID: "C01",
		Funcs: append(treeFuncs([]string{"Search", "Delete", "Insert"},
			map[string][]string{"Search": append([]string{`/found_sound`, `/not_found_justified`}, safetyInc...), "Delete": append([]string{`/removed_key_matches`, `/not_deleted_justified`, `/unlinked`}, safetyInc...), "Insert": append([]string{`/new_leaf_holds_key`, `/new_leaf_linked`, `/split_links_new_leaf`, `/path_split_links_new_leaf`, `/overwrite_key_matches`}, safetyInc...)},
			// new_leaf_linked needs the slow stages (7-25 s, slice-dependent) for the numeric and collation kinds: generated, not claimed there
			map[string][]string{"Delete": {`^C/\(\*(collation|unsigned|signed|float)SortedTree\[K,V\]\)\.Delete/unlinked`}, "Insert": append([]string{`^C/\(\*(collation|unsigned|signed|float)SortedTree\[K,V\]\)\.Insert/new_leaf_linked`, `^C/\(\*(collation|unsigned|signed|float)SortedTree\[K,V\]\)\.Insert/path_split_links_new_leaf`}, insertRung2...)}), withoutFn(helperFuncs(nil), "maximum")...),
		Floor: 2000,
		Assumptions: []string{
			"SCOPE: this check decides the 'each call returns normally' half of C01 (no index/slice/nil/cast/overflow fault, no reachable panic, every callee precondition met) for Insert, Search and Delete of all six tree kinds, for every tree satisfying the typing invariant WF1 - i.e. every reachable tree, PROVIDED WF1 is preserved by Insert/Delete. The functional half (results equal those of an ideal map; no key lost or resurrected) needs the path-coherence invariant (rung 2 of DESIGN.md)and is NOT decided here",
			"the DESCENT RULE of the radix tree is a step obligation of the descent loops of Search, Delete and Insert (step_ensures descent_rule): after one iteration the current node is the child the previous node registers - in its byte->child table as specified for its class - under the key byte at position (previous depth + previous node's compressed-path length), and depth has advanced by that length plus one. Search's hand-inlined per-class lookups are thereby checked against the node view; a wrong byte index or depth increment fails it",
			"after a Delete that unlinks a leaf without merging its parent away, the parent no longer registers the key byte of that leaf (unlinked; claimed for the byte-string and compound trees, where it discharges in seconds - the other kinds need the slow stages)",
			"Delete answers false only for such a reason too (not_deleted_justified, additionally: the child under the next key byte is a leaf holding a different key)",
			"Search answers 'absent' only for a reason the descent rule gives (not_found_justified): empty tree, a leaf holding a different key, the key ending at this node, no child registered under the next key byte, or a mismatch with the inline part of the compressed path. With descent_rule and found_sound this pins Search down as THE lookup of the radix tree the nodes represent; what it does not say is that the tree holds the right keys (Insert/Delete completeness, rung 2)",
			"clauses of the FUNCTIONAL half that need no ghost state are decided as well: Search reports 'present' only when the leaf it ends in holds exactly the searched (transformed) key and returns that leaf's value (found_sound); Delete unlinks only a leaf that holds exactly the searched key (removed_key_matches; on the relinking exit of the generated numeric/compound kinds the match is recorded by a ghost assignment at the deleteChild call); every leaf Insert creates holds exactly the inserted key and value (new_leaf_holds_key); on the 'no child under this byte' exit the new leaf is registered under the key byte at the depth where the descent stopped (new_leaf_linked; claimed for the byte-string and compound trees, where it discharges in seconds); when a leaf is split, the slot holds a fresh node4 whose compressed-path length is the length of the common prefix of the two keys from the current depth, and the new leaf is registered under the first key byte after that prefix (split_links_new_leaf, all six kinds; path_split_links_new_leaf says the same for the split of a compressed path; claimed for the byte-string and compound trees, where it discharges in seconds) and its overwrite exit writes the new value into the leaf that holds exactly that key (overwrite_key_matches). That every stored key is FOUND (completeness of the descent) is the part that needs path coherence",
			"WF1 preservation by Insert/Delete is proved for part of the cases only (evidence of C11 lists which); it is assumed here",
			"ASSUMED, not proved: LinkedLive (no live node references a pooled or empty node: consequence of unique-parent ownership); acyclicity at the merge in Delete (the surviving child is not the holder of the relinked slot) and absence of uint32 overflow of the merged path length; key lengths and sizes < 2^31 / 2^62",
			"three obligations of Insert (second branch byte differs from the first; long-path leaf key long enough; its extent) need path coherence and are generated but not claimed",
			"known finding F8 (alpha keys with embedded 0x00 are not prefix-free: Insert(\"a\"); Insert(\"a\\x00\") loses a key) is outside this check's scope (functional half)",
		},
		DesignRef: "DESIGN.md section 5 C01",
	}
	travInc := append([]string{`/count`, `/order`, `/every_child_pushed`, `/protocol/`}, safetyInc...)
	m["C02"] = &PropDef{
		ID: "C02",
		Funcs: append(append(seqFuncsOnly("all$1", travInc), seqFuncsOnly("backward$1", travInc)...),
			wrapperFuncs([]string{"All", "Backward", "restoreKey"}, safetyInc)...),
		Floor: 150,
		Assumptions: []string{
			"SCOPE: clauses of C02 that one traversal step decides. For the stack-based traversals behind All and Backward (all$1, backward$1): whenever an inner node is expanded the stack grows by exactly the node's number of children - the loop over a node4/node16 covers every occupied slot, the loop over a node48 every byte with a slot index, the loop over a node256 every non-nil slot (every_child_pushed: exit obligation of each inner loop over a ghost copy of the stack height; the counting functions are the ones whose lemmas are proved by induction under C10); every popped leaf is delivered through restoreKey exactly when it is popped; the traversal faults nowhere, writes nothing, and stops calling yield once it returned false. A loop bound that skips a slot or a byte (the usual off-by-one: 255 instead of 256 with a byte-typed variable) fails every_child_pushed",
			"order: for node4 and node16 the j-th element pushed is the child in slot childrenLen-1-j (all$1) resp. slot j (backward$1); for node48 and node256 the child registered under byte x sits at stack position q0 + (number of occupied bytes above x) (all$1) resp. q0 + (number of occupied bytes below x) (backward$1) - proved for an arbitrary byte x (probe-forall). With the strictly ascending key bytes of the class invariants (C10) and the proved monotonicity of the counting functions, the children of a node are popped in ascending resp. descending byte order",
			"NOT decided: the global statement (complete, duplicate-free, sorted over the whole tree), which needs the ordering part of the tree invariant (rung 2) and a sequence-valued ghost result",
		},
		DesignRef: "DESIGN.md section 5 C02, section 12",
	}
	m["C03"] = &PropDef{
		ID:    "C03",
		Funcs: append(wrapperFuncs([]string{"Range", "restoreKey"}, safetyInc), append(seqFuncsOnly("rangeScan", append([]string{`/within_bounds`}, safetyInc...)), FuncCheck{Fn: "maximum", Layer: "C", Include: safetyInc}, FuncCheck{Fn: "longestCommonPrefix", Layer: "C", Include: safetyInc})...),
		Floor: 1500,
		Assumptions: []string{
			"SCOPE: decides the 'returns normally' half of C03 and the empty-tree clause: Range of all six kinds, the closure it returns (rangeScan$1 per leaf class; the single-key closure of the numeric kinds) and their helpers carry an obligation at every index, slice, nil dereference, cast, unsafe.Slice, explicit panic and callee precondition, for every pair of bounds (empty, reversed, equal) and every tree satisfying WF1 - including the empty tree, where Range must not descend (defect F3, fixed: maximum() and the scan require a non-nil root, which the constructor must establish: captures clause); Range is proved to write nothing in the tree",
			"'none outside', one clause of the functional half, is decided: whenever the scan calls yield, the leaf's stored key is neither below the start bound nor above the end bound in byte order (within_bounds at the yield call; model of bytes.Compare: sign of the result = lexicographic order, total)",
			"every child pushed by the scan is recorded with depth = parent's depth + parent's compressed-path length + 1 (child_depth, an invariant of each of the four expansion loops; defect F4, fixed, and a wrong depth below one node class violate it)",
			"per expansion step: a node that is not pruned has every one of its children pushed exactly once and at the position that makes the pops ascending by byte (every_child_pushed, count, order - the clauses of C02, on rangeScan's loops)",
			"NOT decided: that pruning never discards a subtree that holds a key inside the bounds (defect F4, fixed, was of that kind) and hence that no key inside the bounds is missed; the global order of delivery. That needs the path-coherence invariant (rung 2) and a sequence-valued ghost result; defect F4 (fixed) was of that kind and is guarded by the seeded canary only through its safety symptoms",
			"assumed: WF1 preservation, LinkedLive, as in C01; the overflow obligation of the per-entry depth counter is generated but not claimed",
		},
		DesignRef: "DESIGN.md section 5 C03, section 12",
	}
	m["C04"] = &PropDef{
		ID: "C04",
		Funcs: append(wrapperFuncs([]string{"Prefix", "All", "restoreKey"}, safetyInc), append(seqFuncsOnly("lowestCommonParent", safetyInc), append(seqFuncsOnly("filter$1", append([]string{`/only_matching`, `/count`, `/order`, `/every_child_pushed`}, safetyInc...)),
			FuncCheck{Fn: "(*alphaSortedTree[K,V]).Prefix$1", Layer: "C"}, FuncCheck{Fn: "(*collationSortedTree[K,V]).Prefix$1", Layer: "C"})...)...),
		Floor: 150,
		Assumptions: []string{
			"SCOPE: decides the 'returns normally for every p and every tree shape' clause of C04: Prefix of the byte-string and collation trees, lowestCommonParent per leaf class (descent loop with invariant 0 <= depth <= len(prefix), live current node, and a decreasing measure: it terminates) and the filtering scan filter$1 carry an obligation at every index, slice, cast, unsafe.Slice and callee precondition, for every p and every tree satisfying WF1; the selected subtree is proved to be a live node of the same tree (ensures live). Defect F5 (fixed) had a panic of this kind as one symptom",
			"lowestCommonParent follows the descent rule of the tree on the bytes of p (step_ensures descent_rule: next node = child registered under p[depth + path length], depth advances by path length + 1): a depth that overshoots behind a long compressed path fails it",
			"'nothing that does not match', one clause of the functional half, is decided: the filtering scan calls yield only for a pair on which the predicate has just returned true (only_matching), and the predicate Prefix passes in is true exactly when the restored key's bytes start with p (is_has_prefix, for K = []byte resp. string)",
			"NOT decided: that the selected subtree contains every matching key (rung 2) and the order of delivery",
		},
		DesignRef: "DESIGN.md section 5 C04, section 12",
	}
	m["C05"] = &PropDef{
		ID: "C05",
		Funcs: append(append(wrapperFuncs([]string{"Minimum", "Maximum", "restoreKey", "TopK", "BottomK"}, safetyInc),
			FuncCheck{Fn: "minimum", Layer: "C"}, FuncCheck{Fn: "maximum", Layer: "C"}), append(boundedSeqFuncs(nil),
			append(seqFuncsOnly("all$1", []string{`/count`, `/every_child_pushed`}), seqFuncsOnly("backward$1", []string{`/count`, `/every_child_pushed`})...)...)...),
		Static: func(p *Program) []*Obligation { return reiterableObligations(p, []string{"topK$1", "bottomK$1"}) },
		Floor:  250,
		Assumptions: []string{
			"SCOPE: decides for Minimum and Maximum of all six kinds: they report 'none' exactly when the tree is empty (none_iff_empty), otherwise return the key and value of a live leaf of this tree reached by the leftmost / rightmost occupied slot of every node class on the way (contracts of minimum/maximum: first/last occupied slot per class, result is a leaf, loop terminates), fault-free for every tree satisfying WF1, and write nothing. For TopK/BottomK: the per-iteration remaining count (defect F6, fixed) statically; the loop body never decrements below zero (n == 0 and exhausted counts return before yielding), stops when the consumer stops, and faults nowhere (contracts of topK$1/$1$1, bottomK$1/$1$1 - see C14)",
			"NOT decided: that the leftmost leaf holds the smallest key (needs the ordering clause of the tree invariant, rung 2); the element sequences of TopK/BottomK",
		},
		DesignRef: "DESIGN.md section 5 C05, section 12",
	}
	m["C06"] = &PropDef{
		ID: "C06",
		Funcs: treeFuncs([]string{"Size", "Delete", "Insert"},
			map[string][]string{"Size": {`/result`, `/pure`}, "Delete": {`/size`, `/noop_frame`}, "Insert": {`/size_accounting`}},
			// leaf split where one transformed key is a proper prefix of the other: size++ without a new
			// leaf. Unreachable for prefix-free codecs (fixed-width numerics, codec hypothesis of compound
			// trees) but that needs path coherence (rung 2): generated, not claimed. For alpha trees it is
			// reachable (keys with embedded 0x00): known finding F8.
			map[string][]string{"Insert": {`^C/\(\*(unsigned|signed|float|compound)SortedTree\[K,V\]\)\.Insert/size_accounting@ret#8/calls\("Insert\$1"\)=0`,
				`^C/\(\*collationSortedTree\[K,V\]\)\.Insert/size_accounting@ret#4/calls\("Insert\$1"\)=0`}}),
		Floor: 60,
		Assumptions: []string{
			"per-path accounting: on every return path of Insert, size - old(size) equals the number of leaves created on that path (0 or 1); Delete decrements exactly when it returns true and leaves the heap untouched otherwise; Size returns the field and writes nothing",
			"that a created leaf is linked exactly once and that an unlinked leaf was present (so that the counter equals the number of distinct keys) is the uniqueness clause of the tree invariant (rung 2), not decided here",
			"glue G-card (paper): a counter that moves by +1/-1 exactly on adding a new / removing an existing element equals the cardinality",
		},
		DesignRef: "DESIGN.md section 5 C06",
	}
	m["C13"] = &PropDef{
		ID: "C13",
		Funcs: []FuncCheck{
			{Fn: "(*alphaSortedTree[K,V]).Search", Layer: "C", Include: []string{`/arg_bytes_unchanged`, `/pure`}},
			{Fn: "(*alphaSortedTree[K,V]).Delete", Layer: "C", Include: []string{`/arg_bytes_unchanged@ret#[1-689](~|$)`, `/noop_frame`}},
			{Fn: "(*alphaSortedTree[K,V]).Insert", Layer: "C", Include: []string{`/key_owned`, `/arg_bytes_unchanged@ret#(1|2|5|7)/`, `/arg_bytes_unchanged@ret#6/calls\("Insert\$1"\)=1$`}},
			{Fn: "(*CollationOrderKey[K]).Transform@bytes", Layer: "C"},
			{Fn: "(*alphaSortedTree[K,V]).Prefix", Layer: "C", Include: []string{`/arg_bytes_unchanged`, `/pure`}},
			{Fn: "(*alphaSortedTree[K,V]).Range", Layer: "C", Include: []string{`/arg_bytes_unchanged`, `/pure`}},
		},
		Floor: 20,
		Assumptions: []string{
			"decided for the byte-string tree with K = []byte (the instantiation in which Transform returns the caller's slice): every byte of the key argument's backing object, including spare capacity, is unchanged after Search and Delete and on the return paths of Insert that call no node operation; every leaf allocated by Insert points into a byte object allocated inside the call (key_owned), so later caller writes cannot reach it",
			"exact append semantics: in place when len < cap, fresh object otherwise; the three-index slice keyS[:len:len] makes the capacity test false",
			"NOT claimed yet: arg_bytes_unchanged on the return paths of Insert that go through addChild and on the exit of Delete that goes through deleteChild (the byte-object frame of the node operations is proved at node level, but the call-site obligations are not yet stable within the quick timeout; they are generated and attempted on every run). Collation trees over []byte keys: the codec copies the key before anything else (Transform@bytes: argument bytes unchanged, neither result aliases the argument, both are objects allocated by the call) and the tree code - verified for an opaque key type - never sees the caller's slice, only what Transform returns. Range and Prefix are covered for the work done before the sequence is returned (the bounds are copied into fresh objects before the terminator is appended; the caller's bytes are unchanged); the returned closure keeps a reference to the COPIES only for Range and to p itself for Prefix (read-only use, filter$1 verified pure)",
		},
		DesignRef: "DESIGN.md section 5 C13",
	}
	m["C15"] = &PropDef{
		ID: "C15",
		Funcs: append(treeFuncs([]string{"Search", "Size", "Delete", "Insert"},
			map[string][]string{"Search": {`/pure`}, "Size": {`/pure`}, "Delete": {`/noop_frame`}, "Insert": {`/overwrite_only_value`}}, nil), append(append(seqFuncs([]string{`/pure`}), boundedSeqFuncs([]string{`/pure`})...), wrapperFuncs(allWrappers, []string{`/pure`})...)...),
		Floor: 100,
		Assumptions: []string{
			"frame obligations: Search and Size leave every heap array unchanged on every object that existed at entry; Delete returning false leaves the heap unchanged; the overwrite exit of Insert changes nothing but the value field of a leaf",
			"Minimum, Maximum, All, Backward, Prefix, Range (constructors) and the traversal closures all$1, backward$1, filter$1, rangeScan$1 are proved to leave every pre-existing heap object unchanged as well (frame()); TopK/BottomK delegate to All/Backward through the Tree interface and are not symbolically executed",
			"glue (frame rule): a call that writes nothing in the tree cannot affect any later result",
		},
		DesignRef: "DESIGN.md section 5 C15",
	}
	seqClosures := []string{"all$1", "backward$1", "filter$1", "rangeScan$1", "topK$1", "bottomK$1",
		"(*unsignedSortedTree[K,V]).Range$1", "(*signedSortedTree[K,V]).Range$1", "(*floatSortedTree[K,V]).Range$1"}
	m["C14"] = &PropDef{
		ID:     "C14",
		Funcs:  append(append(seqFuncs(append([]string{`/protocol/`}, safetyInc...)), wrapperFuncs([]string{"All", "Backward", "Range", "Prefix", "TopK", "BottomK"}, safetyInc)...), boundedSeqFuncs(nil)...),
		Static: func(p *Program) []*Obligation { return reiterableObligations(p, seqClosures) },
		Floor:  500,
		Assumptions: []string{
			"SCOPE: this check decides the re-iteration half of C14: no sequence closure (nor anything nested in it, including the synthetic range-over-func bodies) stores to a variable that outlives one invocation - captured variables of the function that created the sequence, or package-level variables. With the tree unchanged, a closure that writes nothing that survives it starts every invocation from the same state",
			"glue G-det (paper): the closures are deterministic (no maps, goroutines, time, randomness) and read only their immutable captures and the heap",
			"stopped-early half: in the traversal closures of All, Backward, Prefix and Range (all$1, backward$1, filter$1, rangeScan$1 per leaf class, the single-key closure of the numeric Range) a ghost flag records that yield returned false; every later call of yield carries the obligation that the flag is clear (protocol/no_call_after_false), and every index, cast, unsafe.Slice and callee precondition in them carries its safety obligation for every tree satisfying WF1 and every stack content satisfying the loop invariants. The constructors (All, Backward, Prefix, Range) are proved to establish what the closures capture (root non-nil for rangeScan)",
			"TopK/BottomK: the synthetic body closure of the range-over-func loop (topK$1$1, bottomK$1$1) is under contract: it is entered only in the ready state (jump == 0: proved where the iterator is called, re-established by every call that returns true), calls the consumer's yield only while the stop flag is clear (no_call_after_false), returns false whenever the consumer said stop (stop_propagates) and leaves the loop state consistent (closure_inv: stopped => left for good), so neither synthetic panic (\"yield function called after range loop exit\", \"iterator call did not preserve panic\") is reachable. ASSUMED for the sequence obtained through the Tree interface: it obeys the protocol proved above for this package's own iterators (sequential calls, none after false) and, like every callback in this model, does not write the tree",
			"NOT decided: that the heap still satisfies WF1 when the sequence is iterated (it is a precondition of the closures: the statement says 'with the tree unchanged'); the overflow of rangeScan's per-entry depth counter (needs rung 2); identity of the two passes (follows from determinism + purity, glue G-det)",
			"decided by static analysis of the SSA (store targets resolved through the closure-binding chain), not by the SMT solvers",
		},
		DesignRef: "DESIGN.md section 5 C14",
	}
	m["C17"] = &PropDef{
		ID: "C17",
		Funcs: append(append(append([]FuncCheck{{Fn: "(*CollationOrderKey[K]).Transform", Layer: "C"}},
			treeFuncs([]string{"Search", "Size", "Delete", "Insert"},
				map[string][]string{"Search": {`/pure`, `/scratch_bounded`}, "Size": {`/pure`}, "Delete": {`/noop_frame`, `/empty_is_initial`, `/scratch_bounded`}, "Insert": {`/overwrite_only_value`, `/scratch_bounded`}}, nil)...),
			append(seqFuncs([]string{`/pure`}), wrapperFuncs(allWrappers, []string{`/pure`, `/scratch_bounded`})...)...),
			nodeFuncs([]string{`/put@`, `/zero`, `/replaced`})...),
		Floor: 400,
		Assumptions: []string{
			"proof of PREMISES only: no heap is measured. 'Retained memory depends on the content, not the history' is decomposed into reachability premises that are contract clauses: (1) queries retain nothing: Search, Size, Minimum, Maximum, the sequence constructors and the traversal closures leave every pre-existing heap object unchanged (frame()), so nothing they allocate becomes reachable from the tree; (2) an overwrite changes nothing but the value field of one leaf (overwrite_only_value) and a failed Delete changes nothing (noop_frame); (3) the collation codec's scratch buffer holds exactly the last key's sort key after every Transform (scratch_bounded: the body is verified against a model of collate.Buffer in which Key appends and only Reset empties - defect F10, fixed, is the missing Reset) and both byte slices it returns are ordinary objects allocated by the call, never storage of the buffer (owned); every collation-tree operation that transforms a key (Search, Insert, Delete, Prefix, Range) re-establishes the bound on the buffer from ANY earlier content (scratch_bounded at tree level: an operation that appends to the buffer without resetting it fails it), and the bounds kept by the Range closure are owned copies (captures clause of rangeScan$1@collation); (4) deleting the only key resets the root to the zero reference (empty_is_initial); (5) every inner node released to the pool is unlinked first and all-zero (put_unlinked, put_zero, replaced => zeroed): a pooled node retains no child",
			"NOT decided: that a removed leaf has no other referrer (unique-parent ownership, rung 2); the pool's own retention policy (sync.Pool, runtime); allocator behaviour; constants",
			"model of x/text/collate (trusted): Buffer.Reset sets the held length to 0; Collator.Key(buf, s) appends a key of unconstrained length and content and returns the appended region, storage of the buffer (allocation class 1001). The codec's buffer length is ghost state outside frame()",
		},
		Trusted:   []string{"model of golang.org/x/text/collate Buffer.Reset / Collator.Key in govc/call.go"},
		DesignRef: "DESIGN.md section 5 C17, section 12",
	}
	m["C16"] = &PropDef{
		ID: "C16",
		Funcs: append(treeFuncs([]string{"Search", "Size"},
			map[string][]string{"Search": {`/pure`}, "Size": {`/pure`}}, nil), append(seqFuncs([]string{`/pure`}), wrapperFuncs(allWrappers, []string{`/pure`})...)...),
		Static: func(p *Program) []*Obligation {
			return []*Obligation{globalsObligation(p), poolAccessObligation(p)}
		},
		Floor: 30,
		Assumptions: []string{
			"proof of PREMISES only: deductive verification explores no schedule and runs no race detector. What is proved is the footprint premise of the disjoint-concurrency rule: Search and Size of the byte-string, numeric and compound trees write no pre-existing heap object (so any number of them may run on one quiescent tree), the only package-level state is the node pool, written only by its initialiser and reached only through sync.Pool.Get/Put, and every node operation writes only its own node, the relinked slot and fresh pool nodes (frames of C12)",
			"assumed: the parallel-composition rule of separation logic, Go's DRF-SC guarantee, thread safety of sync.Pool, purity of user codecs; ownership disjointness of distinct trees (tree invariant, rung 2)",
			"the same footprint premise is proved for Minimum, Maximum, the sequence constructors and the traversal closures (TopK/BottomK only through All/Backward); collation trees are outside the concurrent-reader claim by the statement (their obligations are discharged all the same)",
		},
		DesignRef: "DESIGN.md section 5 C16",
	}
	m["C18"] = &PropDef{
		ID: "C18",
		Funcs: append(treeFuncs([]string{"Search", "Delete", "Insert"},
			map[string][]string{"Search": {`^cast/`, `^extent/`}, "Delete": {`^cast/`, `^extent/`}, "Insert": {`^cast/`, `^extent/`, `/key_owned`}},
			map[string][]string{"Insert": insertRung2}), append(helperFuncs([]string{`^cast/`, `^extent/`}), append(seqFuncs([]string{`^cast/`, `^extent/`}), wrapperFuncs(allWrappers, []string{`^cast/`, `^extent/`})...)...)...),
		Static: func(p *Program) []*Obligation {
			return []*Obligation{noPtrHideObligation(p), leafLayoutObligation(p)}
		},
		Floor: 100,
		Assumptions: []string{
			"proof of PREMISES only: no collector is run. Proved: every unsafe.Pointer -> *T conversion in Insert/Search/Delete and the descent helpers of the five generated kinds is applied to an object whose ghost allocation type is T (for V an uninterpreted type, so independent of the value type's size and pointer content); every unsafe.Slice(p, n) stays inside the byte object p points into; no pointer is converted to or from uintptr anywhere in the package; the five generated leaf structs are layout-identical",
			"assumed: soundness of Go's collector and checkptr for heaps meeting these obligations; types.Sizes(gc, amd64) equals the compiler's layout; the typing invariant WF1 is preserved by Insert/Delete (see C11)",
			"leaf structs with identical field lists form one layout class (govc/heap.go leafSig): the signed and float trees cast their leaves to *unsignedLeafNode in Range, which is accepted only because the classes coincide - a leaf struct that gains, loses or reorders a field leaves the class and the cast obligation fails",
			"also covered: the casts and unsafe.Slice calls in the traversal closures, lowestCommonParent, restoreKey, Minimum/Maximum and the sequence constructors of all six kinds",
		},
		DesignRef: "DESIGN.md section 5 C18",
	}
	m["C12"] = &PropDef{
		ID: "C12",
		// clear-before-release and relink-before-release at every Put site, Zero_c postconditions of
		// clear(), 'replaced' clauses (a node that leaves the tree is zeroed), and the frames that
		// confine every node operation to its own node, the relinked slot and fresh pool nodes
		Funcs: nodeFuncs([]string{`/put@`, `/zero`, `/replaced`, `/frame`, `/merge_link`, `clear/`}),
		Floor: 150,
		Trusted: []string{
			"sync.Pool model: Get returns an object nobody else references, of the pool's class; it is all-zero because every Put site is proved to release only zeroed nodes (put_zero) that the tree no longer links (put_unlinked)",
		},
		Assumptions: []string{
			"glue (frame rule, paper): every node operation writes only its own node, the slot it relinks and nodes fresh from the pool, hence operations on one tree cannot change what another tree reads; the tree-level ownership clause (a tree's nodes are referenced from that tree only) is part of WF and is assumed here",
			"'a tree emptied by deletions behaves like a new one' is claimed only through Delete resetting root to the zero nodeRef on the last key (tree-level obligation C/Delete/empty_is_initial when registered)",
		},
		DesignRef: "DESIGN.md section 5 C12",
	}
	return m
}

func nodeFuncs(include []string) []FuncCheck {
	var out []FuncCheck
	for _, f := range []string{"(*node4).clear", "(*node16).clear", "(*node48).clear", "(*node256).clear",
		"(*nodeRef).findChild", "(*nodeRef).addChild", "(*nodeRef).deleteChild",
		"(*node4).addChild", "(*node16).addChild", "(*node48).addChild", "(*node256).addChild",
		"(*node4).deleteChild", "(*node16).deleteChild", "(*node48).deleteChild", "(*node256).deleteChild"} {
		out = append(out, FuncCheck{Fn: f, Layer: "B", Include: include})
	}
	return out
}

var genKinds = []string{"alpha", "unsigned", "signed", "float", "compound", "collation"}

// treeFuncs: the tree-level functions of the five generated kinds, with per-method filters.
func treeFuncs(methods []string, include, exclude map[string][]string) []FuncCheck {
	var out []FuncCheck
	for _, k := range genKinds {
		for _, m := range methods {
			out = append(out, FuncCheck{Fn: "(*" + k + "SortedTree[K,V])." + m, Layer: "C", Include: include[m], Exclude: exclude[m]})
		}
	}
	return out
}

// withoutFn drops one function from a list (maximum is a helper of Range/Maximum only: it is
// checked under C03/C05, not under the map operations of C01).
func withoutFn(fs []FuncCheck, name string) []FuncCheck {
	var out []FuncCheck
	for _, f := range fs {
		if f.Fn != name {
			out = append(out, f)
		}
	}
	return out
}

func helperFuncs(include []string) []FuncCheck {
	out := []FuncCheck{
		{Fn: "(*node).checkPrefix", Layer: "C", Include: include},
		{Fn: "longestCommonPrefix", Layer: "C", Include: include},
		{Fn: "minimum", Layer: "C", Include: include},
		{Fn: "maximum", Layer: "C", Include: include},
	}
	for _, k := range genKinds {
		out = append(out, FuncCheck{Fn: "prefixMismatch@" + k, Layer: "C", Include: include})
	}
	return out
}

// obligations of Insert that need the path-coherence part of the tree invariant (rung 2):
// generated and attempted on every run, but not part of any claim
var insertRung2 = []string{
	`call:\(\*node4\)\.addChild@newNode\.addChild\(ref,(keyS|colKey)\[depth\+prefixDiff\].*/requires#2\.1\.1`, // second branch byte differs from the first
	`index@newNode\.addChild\(ref,leafKey\[depth\+prefixDiff\]`,                                               // long path: leaf key is long enough
	`^extent/.*getTransformKey`, // long path: minimum leaf's key extent after relinking
}

// seqFuncs: the traversal closures behind the sequence methods and the subtree selection of
// Prefix. rangeScan's closure exists once per leaf class it is instantiated with.
func seqFuncs(include []string) []FuncCheck {
	out := []FuncCheck{
		{Fn: "all$1", Layer: "C", Include: include},
		{Fn: "backward$1", Layer: "C", Include: include},
		{Fn: "filter$1", Layer: "C", Include: include},
		{Fn: "lowestCommonParent@alpha", Layer: "C", Include: include},
		{Fn: "lowestCommonParent@collation", Layer: "C", Include: include},
	}
	for _, k := range genKinds {
		// childDepth := depth + prefixLen + 1 cannot be bounded without relating the depth carried on
		// the stack to the ghost depth (rung 2): generated, not claimed
		out = append(out, FuncCheck{Fn: "rangeScan$1@" + k, Layer: "C", Include: include, Exclude: []string{`overflow@childDepth`}})
	}
	return out
}

// seqFuncsOnly: the members of seqFuncs whose name starts with prefix.
func seqFuncsOnly(prefix string, include []string) []FuncCheck {
	var out []FuncCheck
	for _, f := range seqFuncs(include) {
		if strings.HasPrefix(f.Fn, prefix) {
			out = append(out, f)
		}
	}
	return out
}

var numericKinds = []string{"unsigned", "signed", "float"}

// wrapperFuncs: the thin public methods around the helpers and closures.
func wrapperFuncs(methods []string, include []string) []FuncCheck {
	var out []FuncCheck
	has := func(m string) bool {
		for _, x := range methods {
			if x == m {
				return true
			}
		}
		return false
	}
	for _, k := range genKinds {
		for _, m := range []string{"restoreKey", "Minimum", "Maximum", "All", "Backward", "Range", "TopK", "BottomK"} {
			if has(m) {
				out = append(out, FuncCheck{Fn: "(*" + k + "SortedTree[K,V])." + m, Layer: "C", Include: include})
			}
		}
	}
	if has("Range") {
		for _, k := range numericKinds {
			out = append(out, FuncCheck{Fn: "(*" + k + "SortedTree[K,V]).Range$2", Layer: "C", Include: include})
		}
	}
	if has("Prefix") {
		out = append(out, FuncCheck{Fn: "(*alphaSortedTree[K,V]).Prefix", Layer: "C", Include: include},
			FuncCheck{Fn: "(*collationSortedTree[K,V]).Prefix", Layer: "C", Include: include})
	}
	return out
}

var allWrappers = []string{"restoreKey", "Minimum", "Maximum", "All", "Backward", "Range", "Prefix", "TopK", "BottomK"}

// boundedSeqFuncs: TopK/BottomK - the closure returned by topK/bottomK and the synthetic body of
// its range-over-func loop.
func boundedSeqFuncs(include []string) []FuncCheck {
	var out []FuncCheck
	for _, f := range []string{"topK$1", "topK$1$1", "bottomK$1", "bottomK$1$1"} {
		out = append(out, FuncCheck{Fn: f, Layer: "C", Include: include})
	}
	return out
}

func node16OtherFuncs() []FuncCheck {
	return []FuncCheck{
		{Fn: "searchNode16", Layer: "A", Goarch: "riscv64"},
		{Fn: "insertPosNode16", Layer: "A", Goarch: "riscv64"},
	}
}
