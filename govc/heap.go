package main

// Heap model: field-sensitive, object identities of sort Ref.
//
//   scalar field  S.f          : H["S.f"]      : Array Ref X
//   nodeRef slots               : H["SP"] : Array Ref (Array Int Ref)   (pointer part)
//                                 H["ST"] : Array Ref (Array Int Tag)   (tag part)
//   bytes                       : H["B"]  : Array Ref (Array Int Byte)
//   *byte fields S.f            : H["S.f.obj"] : Array Ref Ref, H["S.f.off"] : Array Ref Int
//   ghost                       : H["alloc"] : Array Ref Bool, H["atype"] : Array Ref Int,
//                                 H["blen"] : Array Ref Int (extent of byte objects)
//
// Inner nodes share the header arrays "node.prefixLen", "node.childrenLen";
// node.prefix lives at bytes [0,10) of the node object, node16/48.keys at
// bytes [16, 16+N). (*node)(p), (*node4)(p) ... are the identity on Ref.

import (
	"fmt"
	"go/types"
	"os"
	"sort"
	"strings"
)

type FieldKind int

const (
	FScalar  FieldKind = iota // int/bool/float/Ref/opaque scalar array
	FSlot                     // one nodeRef
	FSlotArr                  // [N]nodeRef
	FByteArr                  // [N]byte
	FBytePtr                  // *byte
	FStruct                   // nested struct (flattened with prefix)
	FIface                    // interface-typed field (abstract identity)
	FSlice                    // slice-typed field (obj/off/len/cap arrays)
)

type FieldInfo struct {
	Kind   FieldKind
	Name   string // heap array base name, e.g. "node4.keys"
	Base   int    // slot base or byte base
	N      int    // array length
	Typ    types.Type
	Struct *StructLayout // FStruct
}

type StructLayout struct {
	Name   string
	Fields map[string]*FieldInfo
	Order  []string
	TypeID int
}

type Layouts struct {
	byName map[string]*StructLayout
	bySig  map[string]*StructLayout // leaf classes with identical field lists share one layout (and type id)
	nextID int
}

func NewLayouts() *Layouts {
	return &Layouts{byName: map[string]*StructLayout{}, bySig: map[string]*StructLayout{}, nextID: 1}
}

// leafSig: the field list of a leaf struct (names and types in order). Two generic leaf structs
// with the same list have the same memory layout for every instantiation, which is what the
// unsafe casts between them (rangeScan instantiated with *unsignedLeafNode for the signed and
// float trees) rely on; such structs are one class for the heap model.
func leafSig(st *types.Struct) string {
	var b strings.Builder
	for i := 0; i < st.NumFields(); i++ {
		f := st.Field(i)
		fmt.Fprintf(&b, "%s:%s;", f.Name(), types.TypeString(f.Type(), func(*types.Package) string { return "" }))
	}
	return b.String()
}

// RegisterLeafClasses visits the package's leaf structs in name order so that the class
// representative does not depend on which function is verified.
func (ls *Layouts) RegisterLeafClasses(pkg *types.Package) {
	names := pkg.Scope().Names()
	sort.Strings(names)
	for _, n := range names {
		if !strings.HasSuffix(n, "LeafNode") {
			continue
		}
		if tn, ok := pkg.Scope().Lookup(n).(*types.TypeName); ok {
			if _, isSt := tn.Type().Underlying().(*types.Struct); isSt {
				ls.Of(tn.Type())
			}
		}
	}
}

func baseTypeName(t types.Type) string {
	switch x := types.Unalias(t).(type) {
	case *types.Named:
		return x.Obj().Name()
	case *types.Pointer:
		return baseTypeName(x.Elem())
	}
	return ""
}

func isNodeRef(t types.Type) bool { return baseTypeName(t) == "nodeRef" && isStruct(t) }
func isStruct(t types.Type) bool  { _, ok := t.Underlying().(*types.Struct); return ok }
func isUnsafePtr(t types.Type) bool {
	b, ok := t.Underlying().(*types.Basic)
	return ok && b.Kind() == types.UnsafePointer
}
func isByteType(t types.Type) bool {
	b, ok := t.Underlying().(*types.Basic)
	return ok && (b.Kind() == types.Uint8)
}

func intInfo(t types.Type) (w int, signed bool, ok bool) {
	b, isB := t.Underlying().(*types.Basic)
	if !isB {
		return 0, false, false
	}
	switch b.Kind() {
	case types.Int8:
		return 8, true, true
	case types.Int16:
		return 16, true, true
	case types.Int32:
		return 32, true, true
	case types.Int64, types.Int:
		return 64, true, true
	case types.Uint8:
		return 8, false, true
	case types.Uint16:
		return 16, false, true
	case types.Uint32:
		return 32, false, true
	case types.Uint64, types.Uint, types.Uintptr:
		return 64, false, true
	case types.UntypedInt, types.UntypedRune:
		return 64, true, true
	}
	return 0, false, false
}

func floatWidth(t types.Type) (int, bool) {
	b, isB := t.Underlying().(*types.Basic)
	if !isB {
		return 0, false
	}
	switch b.Kind() {
	case types.Float32:
		return 32, true
	case types.Float64, types.UntypedFloat:
		return 64, true
	}
	return 0, false
}

// Layout of a struct type (named, possibly generic instance).
func (ls *Layouts) Of(t types.Type) *StructLayout {
	name := baseTypeName(t)
	if name == "" {
		name = sanitize(t.String())
	}
	if l, ok := ls.byName[name]; ok {
		return l
	}
	st, ok := t.Underlying().(*types.Struct)
	if !ok {
		panic("layout of non-struct " + t.String())
	}
	if strings.HasSuffix(name, "LeafNode") {
		sig := leafSig(st)
		if rep, ok := ls.bySig[sig]; ok {
			ls.byName[name] = rep
			return rep
		}
		defer func() { ls.bySig[sig] = ls.byName[name] }()
	}
	l := &StructLayout{Name: name, Fields: map[string]*FieldInfo{}, TypeID: ls.nextID}
	ls.nextID++
	ls.byName[name] = l
	slot := 0
	// byte arrays of a node class start at offset 0 of the object's byte row (so that
	// quantified key indices appear without an offset in the verification conditions);
	// the embedded header's prefix lives at offset 1024
	byteBase := 0
	for i := 0; i < st.NumFields(); i++ {
		f := st.Field(i)
		fi := &FieldInfo{Name: name + "." + f.Name(), Typ: f.Type()}
		ft := f.Type()
		switch u := ft.Underlying().(type) {
		case *types.Struct:
			if isNodeRef(ft) {
				fi.Kind = FSlot
				fi.Base = slot
				slot++
			} else {
				fi.Kind = FStruct
				fi.Struct = ls.Of(ft)
			}
		case *types.Array:
			if isNodeRef(u.Elem()) {
				fi.Kind = FSlotArr
				fi.Base = slot
				fi.N = int(u.Len())
				slot += fi.N
			} else if isByteType(u.Elem()) {
				fi.Kind = FByteArr
				fi.N = int(u.Len())
				if name == "node" {
					fi.Base = 1024
				} else {
					fi.Base = byteBase
					byteBase += (fi.N + 15) / 16 * 16
				}
			} else {
				panic("unsupported array field " + f.String())
			}
		case *types.Pointer:
			if isByteType(u.Elem()) {
				fi.Kind = FBytePtr
			} else {
				fi.Kind = FScalar
			}
		case *types.Interface:
			if _, isTP := types.Unalias(ft).(*types.TypeParam); isTP {
				fi.Kind = FScalar
			} else {
				fi.Kind = FIface
			}
		case *types.Slice:
			fi.Kind = FSlice
		default:
			fi.Kind = FScalar
		}
		l.Fields[f.Name()] = fi
		l.Order = append(l.Order, f.Name())
	}
	return l
}

// scalarSort gives the SMT sort used to store a Go scalar of type t.
func (ex *Exec) scalarSort(t types.Type) string {
	if _, _, ok := intInfo(t); ok {
		return ex.intSort(t)
	}
	if w, ok := floatWidth(t); ok {
		return BVSort(w)
	}
	if b, ok := t.Underlying().(*types.Basic); ok && b.Kind() == types.Bool {
		return SBool
	}
	if isUnsafePtr(t) {
		return SRef
	}
	if _, ok := t.Underlying().(*types.Pointer); ok {
		return SRef
	}
	if tp, ok := types.Unalias(t).(*types.TypeParam); ok {
		if bt := ex.bindings[tp.Obj().Name()]; bt != nil {
			return ex.scalarSort(bt)
		}
		if tp.Obj().Name() == "K" {
			return SKey
		}
		return SVal
	}
	if _, ok := t.Underlying().(*types.Interface); ok {
		return SRef
	}
	panic("scalarSort: unsupported type " + t.String())
}

func (ex *Exec) intSort(t types.Type) string {
	if ex.mode == ModeInt {
		return SInt
	}
	w, _, _ := intInfo(t)
	return BVSort(w)
}

func (ex *Exec) byteSort() string {
	if ex.mode == ModeInt {
		return SInt
	}
	return BVSort(8)
}

// heapSort returns the sort of a heap array by name (declares initial symbol).
func (ex *Exec) heapInit(name string, sort string) Term {
	if ex.mode == ModeBV {
		return ex.st.Const("Hbv."+name, sort)
	}
	return ex.st.Const("H."+name, sort)
}

func (s *State) H(ex *Exec, name string, sort string) Term {
	if t, ok := s.heap[name]; ok {
		return t
	}
	t := ex.heapInit(name, sort)
	s.heap[name] = t
	ex.heapSorts[name] = sort
	return t
}

func (s *State) setH(name string, t Term) {
	s.heap[name] = t
}

func (ex *Exec) spSort() string { return ArrSort(SRef, ArrSort(SInt, SRef)) }
func (ex *Exec) stSort() string { return ArrSort(SRef, ArrSort(SInt, ex.byteSort())) }
func (ex *Exec) bSort() string  { return ArrSort(SRef, ArrSort(SInt, ex.byteSort())) }

// indexTerm converts an IntV index into an Int term (array indices are Int in
// both modes; in BV mode indices are always small constants or bv2nat).
func (ex *Exec) idxTerm(v IntV) Term {
	if v.T.Sort == SInt {
		return v.T
	}
	if c, w, ok := v.T.BVConst(); ok {
		_ = w
		if v.Signed {
			// interpret as signed
			ww, _ := isBVSort(v.T.Sort)
			half := new(bigInt).Lsh(bigOne, uint(ww-1))
			if c.Cmp(half) >= 0 {
				c = new(bigInt).Sub(c, new(bigInt).Lsh(bigOne, uint(ww)))
			}
		}
		return IntBig(c)
	}
	if v.Signed {
		// signed -> Int: ite(msb, nat - 2^w, nat)
		ww, _ := isBVSort(v.T.Sort)
		nat := App(SInt, "bv2nat", v.T)
		return Ite(App(SBool, "bvslt", v.T, BVCu(0, ww)), ISub(nat, IntBig(new(bigInt).Lsh(bigOne, uint(ww)))), nat)
	}
	return App(SInt, "bv2nat", v.T)
}

// slots ------------------------------------------------------------------

func (s *State) loadSlot(ex *Exec, obj, idx Term) StructV {
	sp := s.H(ex, "SP", ex.spSort())
	stt := s.H(ex, "ST", ex.stSort())
	p := s.sel(s.sel(sp, obj), idx)
	t := s.sel(s.sel(stt, obj), idx)
	tv := IntV{T: t, W: 8, Signed: false}
	ex.assumeRange(s, tv)
	ex.assumeAllocated(s, p)
	return ex.mkNodeRef(RefV{T: p}, tv)
}

func (s *State) storeSlot(ex *Exec, obj, idx Term, v StructV) {
	sp := s.H(ex, "SP", ex.spSort())
	stt := s.H(ex, "ST", ex.stSort())
	p := v.Fields["pointer"].(RefV).T
	t := v.Fields["tag"].(IntV).T
	s.setH("SP", Store(sp, obj, Store(s.sel(sp, obj), idx, p)))
	s.setH("ST", Store(stt, obj, Store(s.sel(stt, obj), idx, t)))
}

func (ex *Exec) mkNodeRef(p RefV, tag IntV) StructV {
	return StructV{Typ: ex.nodeRefType, Names: []string{"pointer", "tag"}, Fields: map[string]Value{"pointer": p, "tag": tag}}
}

// bytes ------------------------------------------------------------------

func (s *State) loadByte(ex *Exec, obj, idx Term) IntV {
	b := s.H(ex, "B", ex.bSort())
	v := IntV{T: s.sel(s.sel(b, obj), idx), W: 8}
	ex.assumeRange(s, v)
	return v
}

func (s *State) storeByte(ex *Exec, obj, idx Term, v IntV) {
	b := s.H(ex, "B", ex.bSort())
	s.setH("B", Store(b, obj, Store(s.sel(b, obj), idx, v.T)))
}

// scalar fields ------------------------------------------------------------

func (s *State) loadScalar(ex *Exec, name string, typ types.Type, obj Term) Value {
	sort := ex.scalarSort(typ)
	arr := s.H(ex, name, ArrSort(SRef, sort))
	t := s.sel(arr, obj)
	v := ex.wrapScalar(t, typ)
	if iv, ok := v.(IntV); ok {
		ex.assumeRange(s, iv)
	}
	if rv, ok := v.(RefV); ok {
		ex.assumeAllocated(s, rv.T)
	}
	return v
}

func (s *State) storeScalar(ex *Exec, name string, typ types.Type, obj Term, v Value) {
	sort := ex.scalarSort(typ)
	arr := s.H(ex, name, ArrSort(SRef, sort))
	s.setH(name, Store(arr, obj, ex.scalarTerm(v, typ)))
}

// wrapScalar builds the Value for a scalar term of Go type typ.
func (ex *Exec) wrapScalar(t Term, typ types.Type) Value {
	if w, sg, ok := intInfo(typ); ok {
		return IntV{T: t, W: w, Signed: sg}
	}
	if w, ok := floatWidth(typ); ok {
		return FloatV{Bits: t, W: w}
	}
	if b, ok := typ.Underlying().(*types.Basic); ok && b.Kind() == types.Bool {
		return BoolV{T: t}
	}
	if isUnsafePtr(typ) {
		return RefV{T: t}
	}
	if pt, ok := typ.Underlying().(*types.Pointer); ok {
		return RefV{T: t, Typ: pt.Elem()}
	}
	if tp, ok := types.Unalias(typ).(*types.TypeParam); ok {
		if bt := ex.bindings[tp.Obj().Name()]; bt != nil {
			return ex.wrapScalar(t, bt)
		}
		return OpaqueV{T: t, Typ: typ}
	}
	if _, ok := typ.Underlying().(*types.Interface); ok {
		return IfaceV{T: t}
	}
	panic("wrapScalar: unsupported " + typ.String())
}

func (ex *Exec) scalarTerm(v Value, typ types.Type) Term {
	switch x := v.(type) {
	case IntV:
		return x.T
	case BoolV:
		return x.T
	case FloatV:
		return x.Bits
	case RefV:
		return x.T
	case OpaqueV:
		return x.T
	case NilV:
		return Null
	case IfaceV:
		if x.Dyn == nil && x.T.S != "" {
			return x.T
		}
		if x.Val == nil {
			return Null
		}
		return ex.st.Fresh("iface", SRef)
	case PtrV:
		// pointer to a heap object stored as scalar (e.g. *collate.Buffer): identity
		if x.Kind == PStruct && x.Field == "" {
			return x.Obj
		}
	}
	panic(fmt.Sprintf("scalarTerm: unsupported value %s for %s", describe(v), typ))
}

// assumptions about machine ranges / allocation ------------------------------

func (ex *Exec) assumeRange(s *State, v IntV) {
	if v.T.Sort != SInt {
		return
	}
	if _, ok := v.T.IntConst(); ok {
		return
	}
	lo, hi := intRange(v.W, v.Signed)
	s.assumeOnce(And(ICmp("<=", IntBig(lo), v.T), ICmp("<", v.T, IntBig(hi))))
}

func (ex *Exec) assumeAllocated(s *State, p Term) {
	if p.S == "null" {
		return
	}
	al := s.H(ex, "alloc", ArrSort(SRef, SBool))
	s.assumeOnce(Or(Eq(p, Null), Select(al, p)))
}

func (s *State) assumeOnce(t Term) {
	if t.IsTrue() {
		return
	}
	if s.collect != nil {
		*s.collect = append(*s.collect, t)
		return
	}
	if s.pcSet[t.S] {
		return
	}
	s.noteNeq(t)
	s.pcSet = copySet(s.pcSet)
	s.pcSet[t.S] = true
	s.pc = append(s.pc[:len(s.pc):len(s.pc)], t)
}

func copySet(m map[string]bool) map[string]bool {
	n := make(map[string]bool, len(m)+1)
	for k := range m {
		n[k] = true
	}
	return n
}

// newObject allocates a fresh object of (ghost) type id.
func (s *State) newObject(ex *Exec, hint string, typeID int) Term {
	r := ex.st.Fresh("new."+hint, SRef)
	s.serial++
	fa := make(map[string]int, len(s.freshAt)+1)
	for k, v := range s.freshAt {
		fa[k] = v
	}
	fa[r.S] = s.serial
	s.freshAt = fa
	al := s.H(ex, "alloc", ArrSort(SRef, SBool))
	s.assume(Not(Eq(r, Null)))
	s.assume(Not(Select(al, r)))
	s.setH("alloc", Store(al, r, True))
	// atype is an immutable ghost function Ref -> type id ("the type this address has once
	// allocated"): allocation of a T picks a fresh address whose atype is T.
	if typeID != 0 {
		s.assume(Eq(atypeOf(ex.st, r), IntC(int64(typeID))))
	}
	// convention: every object allocated during the call under verification belongs to the
	// ghost set T of the tree being operated on (inT is the set at exit, see DESIGN section 4.3)
	s.assume(inTOf(ex.st, r))
	// a freshly allocated object is not in the ghost set of pooled nodes
	s.assume(Not(Select(s.H(ex, "pooled", ArrSort(SRef, SBool)), r)))
	return r
}

func (s *State) assume(t Term) {
	if t.IsTrue() {
		return
	}
	if s.collect != nil {
		*s.collect = append(*s.collect, t)
		return
	}
	s.noteNeq(t)
	s.pc = append(s.pc[:len(s.pc):len(s.pc)], t)
}

func heapNameOK(n string) bool { return !strings.ContainsAny(n, " ()") }

// noteNeq records syntactic disequalities (not (= a b)) found in assumptions (also inside conjunctions).
func simpleTerm(t string) bool { return !strings.ContainsAny(t, " (") }

func (s *State) noteNeq(t Term) {
	for _, c := range conjuncts(t) {
		if strings.HasPrefix(c.S, "(= ") {
			eq := splitArgs(c.S)
			if len(eq) == 3 {
				a, b := eq[1], eq[2]
				if simpleTerm(a) && !simpleTerm(b) {
					a, b = b, a
				}
				if !simpleTerm(a) && simpleTerm(b) {
					n := make(map[string]string, len(s.eqc)+1)
					for k, v := range s.eqc {
						n[k] = v
					}
					n[a] = b
					s.eqc = n
				}
			}
			continue
		}
		if !strings.HasPrefix(c.S, "(not (= ") {
			continue
		}
		inner := splitArgs(c.S)
		if len(inner) != 2 {
			continue
		}
		eq := splitArgs(inner[1])
		if len(eq) != 3 || eq[0] != "=" {
			continue
		}
		n := make(map[string]bool, len(s.neq)+2)
		for k := range s.neq {
			n[k] = true
		}
		n[eq[1]+"|"+eq[2]] = true
		n[eq[2]+"|"+eq[1]] = true
		s.neq = n
	}
}

func isFreshSym(t string) bool { return strings.HasPrefix(t, "new.") && !strings.ContainsAny(t, " (") }

// entryTerm: built only from parameters and the initial heap (no stores, havocs, fresh objects).
func entryTerm(t string) bool {
	if t == "null" {
		return true
	}
	for _, bad := range []string{"new.", "store", ".call!", ".loop!", "havoc.", "ret.", "append.", "loop.", "t!", "copy!", "memmove!"} {
		if strings.Contains(t, bad) {
			return false
		}
	}
	return true
}

// distinct: a and b are known to differ without asking the solver.
func (s *State) distinct(a, b Term) bool {
	if a.S == b.S {
		return false
	}
	if s.neq[a.S+"|"+b.S] {
		return true
	}
	if isFreshSym(a.S) && (isFreshSym(b.S) || entryTerm(b.S)) {
		return true
	}
	if isFreshSym(b.S) && entryTerm(a.S) {
		return true
	}
	return false
}

// sel reads arr[idx], looking through stores at indices known to differ from idx.
func (s *State) sel(arr, idx Term) Term {
	for strings.HasPrefix(arr.S, "(store ") {
		a, i, v, ok := splitStore(arr.S)
		if !ok {
			break
		}
		if i == idx.S {
			return Term{v, elemSort(arr.Sort)}
		}
		it := Term{i, idx.Sort}
		if (isNumeral(i) && isNumeral(idx.S)) || s.distinct(it, idx) {
			arr = Term{a, arr.Sort}
			continue
		}
		break
	}
	// look through havocs whose frame leaves idx untouched
	for idx.Sort == SRef {
		fi := s.frames[arr.S]
		if os.Getenv("GOVC_DEBUG_SEL") != "" && strings.Contains(arr.S, ".call!") {
			fmt.Fprintf(os.Stderr, "sel: arr=%s idx=%s frame=%v existed=%v\n", arr.S, idx.S, fi != nil, fi != nil && s.existedAt(idx, fi))
		}
		if fi == nil || !s.existedAt(idx, fi) {
			break
		}
		ok := true
		for _, e := range fi.except {
			if e == idx.S || !s.distinct(idx, Term{e, SRef}) {
				ok = false
				break
			}
		}
		if !ok {
			break
		}
		arr = fi.old
		// continue peeling stores of the older array
		return s.sel(arr, idx)
	}
	r := Select(arr, idx)
	if v, ok := s.eqc[r.S]; ok {
		return Term{v, r.Sort}
	}
	return r
}

// existedAt: idx denotes a non-null object that was allocated when the havoc of fi happened.
func (s *State) existedAt(idx Term, fi *frameInfo) bool {
	if idx.S == "null" {
		return false
	}
	if isFreshSym(idx.S) {
		at, ok := s.freshAt[idx.S]
		return ok && !fi.entry && at < fi.serial
	}
	return entryTerm(idx.S) && s.neq[idx.S+"|null"]
}

// bytesTypeID: ghost allocation type of byte objects (slice backing arrays).
const bytesTypeID = 1000

// scratchTypeID: allocation class of the storage inside a collate.Buffer (see the model of
// collate.Collator.Key in call.go): not an ordinary byte object.
const scratchTypeID = 1001

func atypeOf(st *Symtab, r Term) Term {
	st.Func("atype", []string{SRef}, SInt)
	return App(SInt, "atype", r)
}

func inTOf(st *Symtab, r Term) Term {
	st.Func("inT", []string{SRef}, SBool)
	return App(SBool, "inT", r)
}

// touchedObjects: object terms at which the current heap may differ from the entry heap:
// indices of stores in the heap terms and the exception lists of callee / loop frames.
func (s *State) touchedObjects(ex *Exec) []string {
	seen := map[string]bool{}
	var out []string
	add := func(t string) {
		if t != "null" && t != "" && !seen[t] {
			seen[t] = true
			out = append(out, t)
		}
	}
	var names []string
	for h := range s.heap {
		names = append(names, h)
	}
	sortStrings(names)
	for _, h := range names {
		srt := ex.heapSorts[h]
		if srt == "" || indexSort(srt) != SRef || h == "alloc" || h == "pooled" {
			continue
		}
		arr := s.heap[h]
		for depth := 0; depth < 200; depth++ {
			if strings.HasPrefix(arr.S, "(store ") {
				a, i, _, ok := splitStore(arr.S)
				if !ok {
					break
				}
				add(i)
				arr = Term{a, arr.Sort}
				continue
			}
			if fi := s.frames[arr.S]; fi != nil {
				for _, e := range fi.except {
					add(e)
				}
				arr = fi.old
				continue
			}
			break
		}
	}
	return out
}

// canonHeap maps a heap array name written with any member of a layout class
// ("signedLeafNode.value") to the name the class representative gives it.
func (ex *Exec) canonHeap(h string) string {
	i := strings.Index(h, ".")
	if i < 0 {
		return h
	}
	if l, ok := ex.layouts.byName[h[:i]]; ok && l.Name != h[:i] {
		return l.Name + h[i:]
	}
	return h
}
