package main

// Symbolic execution of the amd64 assembly routines of node16 (Plan-9
// syntax). The file is parsed on every run; every opcode outside the table
// below makes the check fail closed. Semantics follow the Intel SDM for the
// encodings the Go assembler emits for these mnemonics (checked once against
// `go tool objdump`): partial-register writes keep the untouched bits
// symbolic, 16-bit shifts mask their count to 5 bits, PMOVMSKB zero-extends.

import (
	"fmt"
	"go/types"
	"os"
	"regexp"
	"strings"
)

type asmInstr struct {
	op   string
	args []string
	line int
}

type asmFunc struct {
	name   string
	instrs []asmInstr
	labels map[string]int
}

var asmOpcodes = map[string]bool{"MOVQ": true, "MOVB": true, "MOVD": true, "PXOR": true, "PSHUFB": true, "VMOVDQU": true,
	"PCMPEQB": true, "PCMPGTB": true, "PMOVMSKB": true, "SALW": true, "SUBW": true, "ANDW": true, "CMPW": true, "JEQ": true, "TZCNTW": true, "RET": true}

func parseAsm(path string) ([]*asmFunc, error) {
	b, err := os.ReadFile(path)
	if err != nil {
		return nil, err
	}
	defs := map[string]string{}
	var funcs []*asmFunc
	var cur *asmFunc
	textRe := regexp.MustCompile(`^TEXT\s+·(\w+)\(SB\)`)
	for ln, raw := range strings.Split(string(b), "\n") {
		l := raw
		if i := strings.Index(l, "//"); i >= 0 {
			l = l[:i]
		}
		l = strings.TrimSpace(l)
		if l == "" {
			continue
		}
		if strings.HasPrefix(l, "#define") {
			f := strings.Fields(l)
			if len(f) != 3 {
				return nil, fmt.Errorf("line %d: unsupported #define", ln+1)
			}
			defs[f[1]] = f[2]
			continue
		}
		if strings.HasPrefix(l, "#") {
			return nil, fmt.Errorf("line %d: unsupported preprocessor directive %q", ln+1, l)
		}
		if m := textRe.FindStringSubmatch(l); m != nil {
			cur = &asmFunc{name: m[1], labels: map[string]int{}}
			funcs = append(funcs, cur)
			continue
		}
		if cur == nil {
			return nil, fmt.Errorf("line %d: instruction outside TEXT", ln+1)
		}
		if strings.HasSuffix(l, ":") {
			cur.labels[strings.TrimSuffix(l, ":")] = len(cur.instrs)
			continue
		}
		f := strings.Fields(l)
		op := f[0]
		rest := strings.TrimSpace(l[len(op):])
		var args []string
		if rest != "" {
			for _, a := range strings.Split(rest, ",") {
				a = strings.TrimSpace(a)
				// macro substitution on register names (also inside parentheses)
				for k, v := range defs {
					a = regexp.MustCompile(`\b`+k+`\b`).ReplaceAllString(a, v)
				}
				args = append(args, a)
			}
		}
		if !asmOpcodes[op] {
			return nil, fmt.Errorf("line %d: unmodelled instruction %s", ln+1, op)
		}
		cur.instrs = append(cur.instrs, asmInstr{op: op, args: args, line: ln + 1})
	}
	return funcs, nil
}

type asmState struct {
	st   *Symtab
	gp   map[string]Term // 64-bit general registers
	xmm  map[string]Term // 128-bit
	keys Term            // 128-bit memory at *keys
	kptr Term            // pointer value of keys argument
	n, b Term            // 8-bit arguments
	ret  *Term
	pc   []Term
	errs []string
}

func (a *asmState) reg64(name string) Term {
	if t, ok := a.gp[name]; ok {
		return t
	}
	t := a.st.Fresh("asm."+name+".init", BVSort(64))
	a.gp[name] = t
	return t
}

func (a *asmState) xreg(name string) Term {
	if t, ok := a.xmm[name]; ok {
		return t
	}
	t := a.st.Fresh("asm."+name+".init", BVSort(128))
	a.xmm[name] = t
	return t
}

var gpRe = regexp.MustCompile(`^(R[0-9]+|AX|BX|CX|DX|SI|DI|BP)$`)
var xmmRe = regexp.MustCompile(`^X[0-9]+$`)

func low8Parent(r string) (string, bool) {
	switch r {
	case "AL":
		return "AX", true
	case "BL":
		return "BX", true
	case "CL":
		return "CX", true
	case "DL":
		return "DX", true
	}
	return "", false
}

// read w low bits of a GP register operand
func (a *asmState) readGP(name string, w int) (Term, bool) {
	if p, ok := low8Parent(name); ok {
		name = p
	}
	if !gpRe.MatchString(name) {
		return Term{}, false
	}
	r := a.reg64(name)
	if w == 64 {
		return r, true
	}
	return App(BVSort(w), fmt.Sprintf("(_ extract %d 0)", w-1), r), true
}

// write the low w bits of a GP register; 32-bit writes zero-extend, 8/16-bit writes preserve the rest
func (a *asmState) writeGP(name string, w int, v Term) bool {
	if p, ok := low8Parent(name); ok {
		name = p
	}
	if !gpRe.MatchString(name) {
		return false
	}
	switch w {
	case 64:
		a.gp[name] = a.nm(v)
	case 32:
		a.gp[name] = a.nm(App(BVSort(64), "(_ zero_extend 32)", v))
	default:
		old := a.reg64(name)
		hi := App(BVSort(64-w), fmt.Sprintf("(_ extract 63 %d)", w), old)
		a.gp[name] = a.nm(App(BVSort(64), "concat", hi, v))
	}
	return true
}

// nm names a large term by a fresh constant (defining equation goes to the path condition).
func (a *asmState) nm(t Term) Term {
	if len(t.S) < 120 {
		return t
	}
	c := a.st.Fresh("asm.t", t.Sort)
	a.pc = append(a.pc, Eq(c, t))
	return c
}

func (a *asmState) setX(name string, t Term) { a.xmm[name] = a.nm(t) }

func (a *asmState) imm(s string, w int) (Term, bool) {
	if !strings.HasPrefix(s, "$") {
		return Term{}, false
	}
	var n int64
	if _, err := fmt.Sscanf(s[1:], "%v", &n); err != nil {
		return Term{}, false
	}
	return BVC(bigFromInt64(n), w), true
}

func (a *asmState) fail(in asmInstr, msg string) {
	a.errs = append(a.errs, fmt.Sprintf("line %d: %s %s: %s", in.line, in.op, strings.Join(in.args, ", "), msg))
}

// byte lane helpers on 128-bit values
func lane128(v Term, i int) Term {
	return App(BVSort(8), fmt.Sprintf("(_ extract %d %d)", 8*i+7, 8*i), v)
}

func fromLanes(ls []Term) Term {
	// ls[0] is the least significant byte
	rev := make([]Term, len(ls))
	for i := range ls {
		rev[len(ls)-1-i] = ls[i]
	}
	return App(BVSort(8*len(ls)), "concat", rev...)
}

// run executes from instruction index pc and returns the paths' (condition, ret) pairs.
func (a *asmState) run(f *asmFunc, pc int, out *[]asmPath) {
	for pc < len(f.instrs) {
		in := f.instrs[pc]
		arg := func(i int) string {
			if i < len(in.args) {
				return in.args[i]
			}
			return ""
		}
		switch in.op {
		case "MOVQ", "MOVB", "MOVD":
			src, dst := arg(0), arg(1)
			w := map[string]int{"MOVQ": 64, "MOVB": 8, "MOVD": 64}[in.op]
			var v Term
			ok := false
			switch {
			case strings.HasPrefix(src, "keys+0(FP)"):
				v, ok = a.kptr, w == 64
			case strings.HasPrefix(src, "childrenLen+8(FP)"):
				v, ok = a.n, w == 8
			case strings.HasPrefix(src, "b+9(FP)"):
				v, ok = a.b, w == 8
			case strings.HasPrefix(src, "$"):
				v, ok = a.imm(src, w)
			default:
				v, ok = a.readGP(src, w)
			}
			if !ok {
				a.fail(in, "unsupported source operand")
				return
			}
			switch {
			case strings.HasPrefix(dst, "ret+16(FP)"):
				if w != 64 {
					a.fail(in, "result store must be 64-bit")
					return
				}
				vv := v
				a.ret = &vv
			case xmmRe.MatchString(dst):
				if in.op != "MOVD" && in.op != "MOVQ" {
					a.fail(in, "unsupported move to XMM")
					return
				}
				a.setX(dst, App(BVSort(128), "(_ zero_extend 64)", v))
			default:
				if !a.writeGP(dst, w, v) {
					a.fail(in, "unsupported destination operand")
					return
				}
			}
		case "PXOR":
			s, d := arg(0), arg(1)
			if !xmmRe.MatchString(s) || !xmmRe.MatchString(d) {
				a.fail(in, "operands must be XMM")
				return
			}
			if s == d {
				a.xmm[d] = BVC(bigFromInt64(0), 128)
			} else {
				a.setX(d, App(BVSort(128), "bvxor", a.xreg(d), a.xreg(s)))
			}
		case "PSHUFB":
			// dst[i] = mask[i].bit7 ? 0 : dst_old[mask[i] & 15]
			m, d := a.xreg(arg(0)), a.xreg(arg(1))
			var ls []Term
			for i := 0; i < 16; i++ {
				mi := lane128(m, i)
				sel := App(BVSort(4), "(_ extract 3 0)", mi)
				val := lane128(d, 15)
				for k := 14; k >= 0; k-- {
					val = Ite(Eq(sel, BVCu(uint64(k), 4)), lane128(d, k), val)
				}
				hi := App(BVSort(1), "(_ extract 7 7)", mi)
				ls = append(ls, Ite(Eq(hi, BVCu(1, 1)), BVCu(0, 8), val))
			}
			a.setX(arg(1), fromLanes(ls))
		case "VMOVDQU":
			src, d := arg(0), arg(1)
			if !strings.HasPrefix(src, "(") || !strings.HasSuffix(src, ")") || !xmmRe.MatchString(d) {
				a.fail(in, "unsupported operands")
				return
			}
			base, ok := a.readGP(src[1:len(src)-1], 64)
			if !ok {
				a.fail(in, "unsupported base register")
				return
			}
			// the only readable memory is the 16-byte array behind the keys argument
			a.pc = append(a.pc, Eq(base, a.kptr))
			if base.S != a.kptr.S {
				a.fail(in, "load from an address other than the keys argument")
				return
			}
			a.xmm[d] = a.keys
		case "PCMPEQB", "PCMPGTB":
			s, d := a.xreg(arg(0)), a.xreg(arg(1))
			var ls []Term
			for i := 0; i < 16; i++ {
				var c Term
				if in.op == "PCMPEQB" {
					c = Eq(lane128(d, i), lane128(s, i))
				} else {
					c = App(SBool, "bvsgt", lane128(d, i), lane128(s, i)) // signed: dst > src
				}
				ls = append(ls, Ite(c, BVCu(0xFF, 8), BVCu(0, 8)))
			}
			a.setX(arg(1), fromLanes(ls))
		case "PMOVMSKB":
			s := a.xreg(arg(0))
			var bits []Term
			for i := 15; i >= 0; i-- {
				bits = append(bits, App(BVSort(1), fmt.Sprintf("(_ extract %d %d)", 8*i+7, 8*i+7), s))
			}
			m16 := App(BVSort(16), "concat", bits...)
			if !a.writeGP(arg(1), 32, App(BVSort(32), "(_ zero_extend 16)", m16)) {
				a.fail(in, "unsupported destination")
				return
			}
		case "SALW":
			cnt, ok1 := a.readGP(arg(0), 8)
			v, ok2 := a.readGP(arg(1), 16)
			if !ok1 || !ok2 || arg(0) != "CL" {
				a.fail(in, "unsupported operands (count must be CL)")
				return
			}
			c5 := App(BVSort(16), "(_ zero_extend 11)", App(BVSort(5), "(_ extract 4 0)", cnt)) // count masked to 5 bits
			a.writeGP(arg(1), 16, App(BVSort(16), "bvshl", v, c5))
		case "SUBW", "ANDW":
			var s Term
			var ok bool
			if strings.HasPrefix(arg(0), "$") {
				s, ok = a.imm(arg(0), 16)
			} else {
				s, ok = a.readGP(arg(0), 16)
			}
			d, ok2 := a.readGP(arg(1), 16)
			if !ok || !ok2 {
				a.fail(in, "unsupported operands")
				return
			}
			op := map[string]string{"SUBW": "bvsub", "ANDW": "bvand"}[in.op]
			a.writeGP(arg(1), 16, App(BVSort(16), op, d, s))
		case "CMPW":
			// followed by JEQ: record the comparison
			x, ok1 := a.readGP(arg(0), 16)
			y, ok2 := a.imm(arg(1), 16)
			if !ok1 || !ok2 {
				a.fail(in, "unsupported operands")
				return
			}
			if pc+1 >= len(f.instrs) || f.instrs[pc+1].op != "JEQ" {
				a.fail(in, "CMPW must be followed by JEQ")
				return
			}
			target, ok := f.labels[f.instrs[pc+1].args[0]]
			if !ok {
				a.fail(in, "unknown label")
				return
			}
			eq := Eq(x, y)
			taken := a.clone()
			taken.pc = append(taken.pc, eq)
			taken.run(f, target, out)
			a.errs = append(a.errs, taken.errs...)
			a.pc = append(a.pc, Not(eq))
			pc += 2
			continue
		case "JEQ":
			a.fail(in, "JEQ without CMPW")
			return
		case "TZCNTW":
			s, ok := a.readGP(arg(0), 16)
			if !ok {
				a.fail(in, "unsupported operand")
				return
			}
			res := BVCu(16, 16)
			for i := 15; i >= 0; i-- {
				bit := App(BVSort(1), fmt.Sprintf("(_ extract %d %d)", i, i), s)
				res = Ite(Eq(bit, BVCu(1, 1)), BVCu(uint64(i), 16), res)
			}
			a.writeGP(arg(1), 16, res)
		case "RET":
			if a.ret == nil {
				a.fail(in, "RET without a result store")
				return
			}
			*out = append(*out, asmPath{pc: append([]Term{}, a.pc...), ret: *a.ret})
			return
		}
		pc++
	}
	a.errs = append(a.errs, "fell off the end of "+f.name)
}

type asmPath struct {
	pc  []Term
	ret Term
}

func (a *asmState) clone() *asmState {
	n := *a
	n.gp = map[string]Term{}
	for k, v := range a.gp {
		n.gp[k] = v
	}
	n.xmm = map[string]Term{}
	for k, v := range a.xmm {
		n.xmm[k] = v
	}
	n.pc = append([]Term{}, a.pc...)
	n.errs = nil
	if a.ret != nil {
		r := *a.ret
		n.ret = &r
	}
	return &n
}

// asmObligations proves the Go-level contracts of searchNode16 / insertPosNode16
// (the same //@ blocks that callers rely on) for the assembly bodies.
func asmObligations(st *Symtab, path string) ([]*Obligation, []string, error) {
	funcs, err := parseAsm(path)
	if err != nil {
		return nil, nil, err
	}
	p := lastProgram
	if p == nil {
		var e error
		p, e = loadAll("")
		if e != nil {
			return nil, nil, e
		}
	}
	var obs []*Obligation
	var notes []string
	want := map[string]bool{"searchNode16": false, "insertPosNode16": false}
	for _, f := range funcs {
		if _, ok := want[f.name]; !ok {
			return nil, nil, fmt.Errorf("unexpected assembly function %s", f.name)
		}
		want[f.name] = true
		ct := p.CF.Contracts[f.name]
		if ct == nil {
			return nil, nil, fmt.Errorf("no contract for %s", f.name)
		}
		a := &asmState{st: st, gp: map[string]Term{}, xmm: map[string]Term{}}
		a.keys = st.Fresh("asm.keys", BVSort(128))
		a.kptr = st.Fresh("asm.keysptr", BVSort(64))
		a.n = st.Fresh("p.childrenLen", BVSort(8))
		a.b = st.Fresh("p.b", BVSort(8))
		var paths []asmPath
		a.run(f, 0, &paths)
		if len(a.errs) > 0 {
			return nil, nil, fmt.Errorf("%s: %s", f.name, strings.Join(a.errs, "; "))
		}
		notes = append(notes, fmt.Sprintf("%s: %d instructions, %d paths", f.name, len(f.instrs), len(paths)))
		// evaluate the contract over a state whose byte heap holds the 16 key bytes
		ex := &Exec{prog: p, st: st, mode: ModeBV, layouts: NewLayouts(), heapSorts: map[string]string{}, bindings: map[string]types.Type{}, obN: map[string]int{}, opts: map[string]string{}, assignedHeaps: map[string]bool{}, callAssumesUsed: map[string]bool{}, caseLabels: map[string]string{}, fnName: f.name, layer: "A"}
		s := &State{pcSet: map[string]bool{}, heap: map[string]Term{}, cells: map[int]Value{}, names: map[string]Value{}, ghost: map[string]Value{}}
		kobj := st.Fresh("asm.keysobj", SRef)
		for i := 0; i < 16; i++ {
			s.storeByte(ex, kobj, IntC(int64(i)), IntV{T: lane128(a.keys, i), W: 8})
		}
		vars := map[string]Value{
			"keys":        PtrV{Kind: PByteArr, Obj: kobj, Idx: IntC(0), N: 16, Elem: types.NewArray(types.Typ[types.Uint8], 16)},
			"childrenLen": IntV{T: a.n, W: 8},
			"b":           IntV{T: a.b, W: 8},
		}
		env := &SpecEnv{ex: ex, cur: s, old: s, vars: vars}
		var pre []Term
		for _, r := range ct.Requires {
			pre = append(pre, env.evalAssume(r.Expr))
		}
		for pi, pth := range paths {
			env2 := &SpecEnv{ex: ex, cur: s, old: s, vars: vars, results: []Value{IntV{T: pth.ret, W: 64, Signed: true}}}
			for i, e := range ct.Ensures {
				label := e.Label
				if label == "" {
					label = fmt.Sprintf("ensures#%d", i+1)
				}
				g := env2.evalProve(e.Expr)
				o := &Obligation{Name: fmt.Sprintf("A/%s[amd64.s]/path%d/%s", f.name, pi+1, label), Func: f.name + " (node16_amd64.s)", Kind: "ensures", Pos: "node16_amd64.s",
					Assume: append(append([]Term{}, pre...), pth.pc...), Goal: g, Note: e.Src}
				obs = append(obs, o)
			}
		}
	}
	for n, seen := range want {
		if !seen {
			return nil, nil, fmt.Errorf("assembly function %s not found in %s", n, path)
		}
	}
	return obs, notes, nil
}
