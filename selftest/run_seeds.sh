#!/bin/bash
# Detection matrix: apply every seeded change (/verif/seeded/<id>/patch.diff) and every canary
# (/verif/selftest/canaries/F*.patch = a repaired defect put back) to a scratch copy of /repo
# (never /repo itself), run the quick checks of the given properties against it (VERIF_REPO),
# record which checks report a VIOLATION. Unchanged functions hit the result cache.
# usage: run_seeds.sh <outfile> <props...>      (filter: SEEDS="C10-1 F3")
out=$1; shift
props="$@"
scratch=/var/tmp/vscratch/repo_seed.$$
rm -rf $scratch; mkdir -p /var/tmp/vscratch; cp -r /repo $scratch
vd=/var/tmp/vscratch/vd.$$; mkdir -p $vd /verif/.cache; cp /verif/known_findings.jsonl $vd/; ln -sfn /verif/.cache $vd/.cache
cp /verif/bin/govc $vd/govc
: > $out
list=${SEEDS:-$(ls /verif/seeded; ls /verif/selftest/canaries | grep patch | sed 's/.patch//')}
for sd in $list; do
  if [ -f /verif/selftest/canaries/$sd.patch ]; then pf=/verif/selftest/canaries/$sd.patch; else pf=/verif/seeded/$sd/patch.diff; fi
  git -C $scratch checkout -q -- . 2>/dev/null
  if ! git -C $scratch apply $pf 2>/dev/null; then echo "$sd APPLY-FAIL" >> $out; continue; fi
  line="$sd"
  for p in $props; do
    res=$(cd /verif && VERIF_NORETRY=1 VERIF_REPO=$scratch VERIF_DIR=$vd timeout 1200 $vd/govc check -p $p 2>&1)
    rc=$?
    nv=$(echo "$res" | grep -c "^VIOLATION")
    conf=$(echo "$res" | grep "^VIOLATION" | grep -vc "no-failing-input-found")
    if [ $rc -ne 0 ]; then line="$line $p:viol=$nv,confirmed=$conf"; fi
  done
  echo "$line" >> $out
done
git -C $scratch checkout -q -- . 2>/dev/null
rm -rf $scratch $vd
echo DONE >> $out
