#!/bin/bash
# Detection matrix: apply every seeded change (and every canary = reverted fix) to a scratch copy
# of /repo (never /repo itself), run the quick checks of the given properties against it
# (VERIF_REPO), record which checks report a VIOLATION.
# usage: run_seeds.sh <outfile> <props...>      (seeds filter: SEEDS="C10-1 C12-2")
out=$1; shift
props="$@"
scratch=/var/tmp/vscratch/repo_seed.$$
rm -rf $scratch; mkdir -p /var/tmp/vscratch; cp -r /repo $scratch
vd=/var/tmp/vscratch/vd.$$; mkdir -p $vd /verif/.cache; cp /verif/known_findings.jsonl $vd/; ln -sfn /verif/.cache $vd/.cache
: > $out
list=${SEEDS:-$(ls /verif/seeded)}
for sd in $list; do
  d=/verif/seeded/$sd
  git -C $scratch checkout -q -- . 2>/dev/null
  if ! git -C $scratch apply $d/patch.diff 2>/dev/null; then echo "$sd APPLY-FAIL" >> $out; continue; fi
  line="$sd"
  for p in $props; do
    res=$(cd /verif && VERIF_REPO=$scratch VERIF_DIR=/var/tmp/vscratch/vd.$$ timeout 900 ./bin/govc check -p $p 2>&1)
    rc=$?
    nv=$(echo "$res" | grep -c "^VIOLATION")
    conf=$(echo "$res" | grep "^VIOLATION" | grep -vc "no-failing-input-found")
    line="$line $p:rc=$rc,viol=$nv,confirmed=$conf"
  done
  echo "$line" >> $out
done
git -C $scratch checkout -q -- . 2>/dev/null
rm -rf $scratch /var/tmp/vscratch/vd.$$
echo DONE >> $out
