#!/usr/bin/env python3
"""Turns the output files of run_seeds.sh into the markdown table of DESIGN.md section 12.6.
usage: matrix_to_md.py <matrix files...>   (later files override earlier ones per seed)"""
import json, re, sys, os
rows = {}
for f in sys.argv[1:]:
    for l in open(f):
        l = l.strip()
        if not l or l == "DONE":
            continue
        parts = l.split()
        rows[parts[0]] = parts[1:]
def desc(sd):
    p = f"/verif/seeded/{sd}/meta.json"
    if os.path.exists(p):
        d = json.load(open(p))
        s = d["summary"].split(". ")[0]
        return s[:170] + ("…" if len(s) > 170 else ""), d.get("property", sd.split("-")[0])
    p = f"/verif/selftest/canaries/{sd}.json"
    d = json.load(open(p))
    return f"canary: fix {d['reverts']} ({d['finding']}) reverted", d["property"]
def key(sd):
    m = re.match(r"([CF])(\d+)(?:-(\d+))?", sd)
    return (m.group(1), int(m.group(2)), int(m.group(3) or 0))
print("| change | written for | what it does | checks that report a violation (VIOLATION lines / with failing input on the real code) |")
print("|---|---|---|---|")
for sd in sorted(rows, key=key):
    d, prop = desc(sd)
    det = []
    for c in rows[sd]:
        m = re.match(r"(C\d+):viol=(\d+),confirmed=(\d+)", c)
        if not m:
            continue
        if m.group(2) == "0":
            det.append(f"{m.group(1)} (stopped by the runner's time limit)")
        else:
            det.append(f"{m.group(1)} ({m.group(2)}/{m.group(3)})")
    print(f"| {sd} | {prop} | {d} | {', '.join(det) if det else '— none'} |")
